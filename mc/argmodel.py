"""Reference model of a Buildable's arguments: a list and two dicts.

prefix : list of slots (value | UNSET) for positional-only + positional-or-kw
V      : plain Python list for *args
K      : insertion-ordered dict for keyword-only and extra (**kwargs) names
Shared by C01 (binding), C03 (edits), C16 (history monitor).
"""
from __future__ import annotations

import itertools

from vfx import sigs as S


class _Unset:

  def __repr__(self):
    return 'UNSET'


UNSET = _Unset()
VA = 'VA'   # stands for fdl.VARARGS in op descriptors
UNSET_KEY = '<unset>'   # how UNSET is written in state keys / JSON


class Invalid(Exception):
  pass


class Model:

  def __init__(self, sig, state=None):
    self.sig = sig
    self.params = S.params(sig)
    self.pos = [p for p in self.params if p[1] in ('po', 'pk')]
    self.P = len(self.pos)
    self.has_var = sig[3]
    self.has_kw = sig[5]
    self.ko = [p for p in self.params if p[1] == 'ko']
    self.pk_names = [p[0] for p in self.pos if p[1] == 'pk']
    self.po_names = [p[0] for p in self.pos if p[1] == 'po']
    self.ko_names = [p[0] for p in self.ko]
    if state is None:
      self.prefix = [UNSET] * self.P
      self.V = []
      self.K = {}
    else:
      self.prefix = [UNSET if v == UNSET_KEY and isinstance(v, str) else v
                     for v in state[0]]
      self.V = list(state[1])
      self.K = dict(state[2])

  # ---- state
  def key(self):
    return (tuple(UNSET_KEY if v is UNSET else v for v in self.prefix),
            tuple(self.V), tuple(self.K.items()))

  def copy(self):
    return Model(self.sig, self.key())

  def default_of(self, i, no_value):
    n, _, d = self.pos[i]
    return f'd_{n}' if d else no_value

  def view(self, no_value):
    return [self.default_of(i, no_value) if v is UNSET else v
            for i, v in enumerate(self.prefix)] + list(self.V)

  def slot_index(self, name):
    for i, p in enumerate(self.pos):
      if p[0] == name:
        return i
    return None

  # ---- name operations.  Each returns (status, value, newmodel)
  #   status: 'ok' | 'raise' | 'either' (raise-and-unchanged or newmodel)
  def name_kind(self, name):
    for n, k, _ in self.params:
      if n == name:
        return k
    return None

  def op_get(self, name, no_value):
    k = self.name_kind(name)
    if k in ('po', 'var'):
      return 'raise', None, self
    if k == 'pk':
      i = self.slot_index(name)
      v = self.prefix[i]
      if v is UNSET:
        if self.pos[i][2]:
          return 'ok', f'd_{name}', self
        return 'raise', None, self
      return 'ok', v, self
    if k == 'ko':
      if name in self.K:
        return 'ok', self.K[name], self
      if dict((p[0], p[2]) for p in self.ko)[name]:
        return 'ok', f'd_{name}', self
      return 'raise', None, self
    # extra / unknown
    if name in self.K:
      return 'ok', self.K[name], self
    return 'raise', None, self

  def op_set(self, name, v):
    k = self.name_kind(name)
    if k in ('po', 'var'):
      return 'raise', None, self
    m = self.copy()
    if k == 'pk':
      m.prefix[self.slot_index(name)] = v
      return 'ok', None, m
    if k == 'ko':
      m.K[name] = v
      return 'ok', None, m
    if k == 'kw':
      return 'skip', None, self
    if not self.has_kw:
      return 'raise', None, self
    m.K[name] = v
    return 'ok', None, m

  def op_del(self, name):
    k = self.name_kind(name)
    m = self.copy()
    if k == 'pk':
      i = self.slot_index(name)
      if self.prefix[i] is UNSET:
        return 'raise', None, self
      m.prefix[i] = UNSET
      return 'ok', None, m
    if k == 'kw':
      return 'skip', None, self
    if name in self.K and k in ('ko', None):
      del m.K[name]
      return 'ok', None, m
    if name in self.K and k in ('po', 'var'):
      # a **kwargs entry that happens to be named like a positional-only /
      # *args parameter: deleting it by attribute may be refused or honoured
      del m.K[name]
      return 'either', None, m
    return 'raise', None, self

  # ---- positional operations
  def _resolve(self, x):
    if x == VA:
      if not self.has_var:
        raise Invalid('VARARGS without *args: out of domain')
      return self.P
    return x

  def op_geti(self, i, no_value):
    try:
      i = self._resolve(i)
    except Invalid:
      return 'skip', None, self
    view = self.view(no_value)
    try:
      return 'ok', view[i], self
    except IndexError:
      return 'raise', None, self

  def _norm_index(self, i):
    n = self.P + len(self.V)
    if i < 0:
      i += n
    if not 0 <= i < n:
      return None
    return i

  def op_seti(self, i, v):
    try:
      i = self._resolve(i)
    except Invalid:
      return 'skip', None, self
    j = self._norm_index(i)
    if j is None:
      return 'raise', None, self
    m = self.copy()
    if j < self.P:
      m.prefix[j] = v
    else:
      m.V[j - self.P] = v
    return 'ok', None, m

  def op_deli(self, i):
    try:
      i = self._resolve(i)
    except Invalid:
      return 'skip', None, self
    j = self._norm_index(i)
    if j is None:
      return 'raise', None, self
    m = self.copy()
    if j < self.P:
      if self.prefix[j] is UNSET:
        return 'either', None, self
      m.prefix[j] = UNSET
    else:
      del m.V[j - self.P]
    return 'ok', None, m

  def _slice(self, s):
    return slice(*[self._resolve(x) for x in s])

  def op_gets(self, s, no_value):
    try:
      sl = self._slice(s)
    except Invalid:
      return 'skip', None, self
    return 'ok', self.view(no_value)[sl], self

  def op_sets(self, s, rhs):
    try:
      sl = self._slice(s)
    except Invalid:
      return 'skip', None, self
    cells = [('s', i) for i in range(self.P)] + [
        ('v', j) for j in range(len(self.V))]
    new = list(cells)
    try:
      new[sl] = [('n', v) for v in rhs]
    except ValueError:
      return 'raise', None, self
    if len(new) != len(cells):
      # Length-changing: only allowed inside *args, prefix untouched.
      if not self.has_var or new[:self.P] != cells[:self.P]:
        return 'raise', None, self
    m = self.copy()
    for i in range(self.P):
      c = new[i]
      if c[0] == 'n':
        m.prefix[i] = c[1]
      else:
        assert c == ('s', i), (s, rhs, new)
    m.V = [c[1] if c[0] == 'n' else self.V[c[1]] for c in new[self.P:]]
    return 'ok', None, m

  def op_dels(self, s):
    try:
      sl = self._slice(s)
    except Invalid:
      return 'skip', None, self
    n = self.P + len(self.V)
    idxs = list(range(*sl.indices(n)))
    m = self.copy()
    either = False
    for i in idxs:
      if i < self.P:
        if self.prefix[i] is UNSET:
          either = True
        m.prefix[i] = UNSET
    kill = {i - self.P for i in idxs if i >= self.P}
    m.V = [v for j, v in enumerate(self.V) if j not in kill]
    return ('either' if either else 'ok'), None, m

  def apply(self, op, no_value):
    kind = op[0]
    if kind == 'get':
      return self.op_get(op[1], no_value)
    if kind == 'set':
      return self.op_set(op[1], op[2])
    if kind == 'del':
      return self.op_del(op[1])
    if kind == 'geti':
      return self.op_geti(op[1], no_value)
    if kind == 'seti':
      return self.op_seti(op[1], op[2])
    if kind == 'deli':
      return self.op_deli(op[1])
    if kind == 'gets':
      return self.op_gets(op[1], no_value)
    if kind == 'sets':
      return self.op_sets(op[1], op[2])
    if kind == 'dels':
      return self.op_dels(op[1])
    raise ValueError(op)

  # ---- predicted observables
  def ordered_arguments(self, no_value, *, include_var_keyword=True,
                        include_defaults=False, include_unset=False,
                        include_positional=True,
                        include_equal_to_default=True):
    out = []
    missing = object()
    for idx, (n, k, d) in enumerate(self.params):
      if k in ('po', 'pk', 'ko'):
        if k == 'ko':
          v = self.K.get(n, UNSET)
        else:
          v = self.prefix[idx]
        default = f'd_{n}' if d else missing
        val = missing
        if v is not UNSET:
          val = v
        elif d:
          if include_defaults:
            val = default
        elif include_unset:
          val = no_value
        if val is not missing:
          if include_equal_to_default or default is missing or val != default:
            out.append((idx if k == 'po' else n, val))
      elif k == 'var':
        for j, v in enumerate(self.V):
          out.append((idx + j, v))
    if include_var_keyword:
      for n, v in self.K.items():
        if n not in self.ko_names:
          out.append((n, v))
    if not include_positional:
      out = [(k, v) for k, v in out if isinstance(k, str)]
    return out

  def dir_names(self):
    names = set(self.pk_names) | set(self.ko_names)
    names |= set(self.K)
    return names

  def call_plan(self, no_value):
    """How Python requires the configured arguments to be passed.

    Returns ('call', args, kwargs) or ('raise',) if no call can be formed that
    passes exactly the set arguments (a required slot below a set positional
    is missing).
    """
    # last prefix index that must go positionally
    last_pos = -1
    for i, (n, k, d) in enumerate(self.pos):
      if k == 'po' and self.prefix[i] is not UNSET:
        last_pos = i
    if self.V:
      last_pos = self.P - 1
    args = []
    kwargs = {}
    for i, (n, k, d) in enumerate(self.pos):
      v = self.prefix[i]
      if i <= last_pos:
        if v is UNSET:
          if d:
            args.append(f'd_{n}')   # reported view shows the default
          else:
            return ('raise',)
        else:
          args.append(v)
      else:
        if v is not UNSET:
          kwargs[n] = v       # must be pk (po beyond last_pos are unset)
    args.extend(self.V)
    kwargs.update(self.K)
    return ('call', args, kwargs)


FLAG_NAMES = ('include_var_keyword', 'include_defaults', 'include_unset',
              'include_positional', 'include_equal_to_default')


def legal_flag_combos():
  out = []
  for bits in itertools.product((False, True), repeat=5):
    kw = dict(zip(FLAG_NAMES, bits))
    if kw['include_defaults'] and not kw['include_equal_to_default']:
      continue
    out.append(kw)
  return out
