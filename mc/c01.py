"""C01: build(Config(f, ...)) calls f with exactly the configured arguments.

Bounded-exhaustive enumeration: every signature of the alphabet x every
callable flavour x every subset of parameters set x every way of setting it
x a menu of nestings, each compared with the direct call.
"""
from __future__ import annotations

import collections
import itertools

import fiddle as fdl
from mc import argmodel as M
from mc import canon
from mc import core
import vfx
from vfx import sigs as S

PROP = 'C01'
LEVEL = 'model_checking'
TECHNIQUE = ('bounded-exhaustive enumeration of signature x binding x '
             'construction-history x nesting, real fdl.build vs direct call')
RULE = ('all signatures over (po<=2, pk<=2, defaults suffix, *args?, ko<=2 '
        'each with/without default, **kw?) x flavours (function, class, '
        'classmethod, callable instance, functools.partial object, dataclass '
        'with/without default_factory) x every subset of parameters set, '
        '*args length 0..2, 0..1 extra keyword x {constructor-keyword, '
        'constructor-positional, attribute/index edits, set-all-then-delete} '
        'x nesting menu; a case is distinct by (signature, flavour, model '
        'state, way, nesting) and non-trivial when at least one parameter is '
        'set')
ASSUMPTIONS = [
    'the reference is the direct call formed as Python requires: positional '
    'for the prefix when *args is non-empty or a later positional-only '
    'parameter is set (an unset slot with a default is passed as that '
    'default, which is what cfg[:] reports), keyword otherwise',
    'where no such call exists (required positional slot unset below a set '
    'one) any Exception from fdl.build is accepted',
    'recording callables return their bound locals, so mis-binding is visible',
]
LEVEL_TEXT = ('Exhaustive within the stated signature alphabet: every '
              'combination of parameter kind x set/unset x default/no default '
              'x in-*args x way-of-setting is built by the real fdl.build and '
              'compared with the direct call.')
LEVEL_NOTE = ('Trusted: vfx recording callables, mc/argmodel.call_plan, '
              'canon_built. Bounds: <=2 parameters per kind, *args<=2.')

NO_VALUE = fdl.NO_VALUE
Pair = collections.namedtuple('Pair', ['first', 'second'])


def bounds(tier):
  if tier == 'quick':
    return dict(max_po=1, max_pk=2, max_ko=1, max_v=2)
  return dict(max_po=2, max_pk=2, max_ko=2, max_v=2)


def units(tier, seed):
  b = bounds(tier)
  sigs = S.all_sigs(b['max_po'], b['max_pk'], b['max_ko'])
  if b['max_po'] < 2:
    # two positional-only parameters (gaps between them), without ko params
    sigs += [s_ for s_ in S.all_sigs(2, 1, 0) if s_[0] == 2]
  sigs.sort(key=lambda s: -(s[0] + s[1] + len(s[4]) + s[3] + s[5]))
  return [list(s[:4]) + [list(s[4]), s[5]] for s in sigs]


def leaf_fn(x='dx'):
  return vfx.rec('leaf_fn', locals())


leaf_fn.__module__ = 'mc.c01'

# nesting menu: name -> (make_cfg_value(), make_ref_value()) for one slot
def nestings():
  def cfg_node(tag):
    return fdl.Config(leaf_fn, x=tag)

  def ref_node(tag):
    return leaf_fn(x=tag)

  return {
      'config': (lambda: cfg_node('n'), lambda: ref_node('n')),
      'list': (lambda: [cfg_node('n'), 'leaf'], lambda: [ref_node('n'), 'leaf']),
      'tuple': (lambda: (cfg_node('n'),), lambda: (ref_node('n'),)),
      'dict': (lambda: {'k': cfg_node('n')}, lambda: {'k': ref_node('n')}),
      'namedtuple': (lambda: Pair(cfg_node('n'), 1),
                     lambda: Pair(ref_node('n'), 1)),
      'deep': (lambda: [{'k': (cfg_node('n'),)}],
               lambda: [{'k': (ref_node('n'),)}]),
  }


class _Decoy:
  """An unhashable callable whose signature differs from every vfx one."""
  __hash__ = None

  def __eq__(self, other):
    return self is other

  def __call__(self, only_decoy_parameter=0):
    return vfx.rec('decoy', locals())


_UNHASHABLE = {}


def unhashable_instance(sig):
  """A fresh unhashable callable instance for `sig`. Before it is created a
  decoy instance of another class is configured and dropped, so that an
  id-keyed cache that does not pin its key sees the address again."""
  cls = _UNHASHABLE.get(sig)
  if cls is None:
    base = type(S.inst(sig))
    cls = type('U' + base.__name__, (base,),
               {'__hash__': None, '__eq__': lambda self, other: self is other})
    _UNHASHABLE[sig] = cls
  d = _Decoy()
  fdl.Config(d)
  del d
  return cls()


def flavours(sig):
  out = [('fn', S.fn(sig)), ('cls', S.cls(sig)), ('classmethod',
                                                   S.classmeth(sig)),
         ('instance', S.inst(sig)), ('partialobj', S.partial_of(sig)),
         ('unhashable_instance', None)]
  po, pk, nd, var, ko, kw = sig
  if po == 0 and not var and not kw:
    out.append(('dataclass', S.dc(sig)))
    if nd > 0:
      out.append(('dataclass_factory', S.dc(sig, True)))
  return out


VALUE_MODES = {
    # distinct tokens: mis-binding is visible
    'tokens': None,
    # values that are falsy / None: "is it set?" must not be a truth test
    'none': [None],
    'falsy': [0, '', False, (), 0.0],
    # equal-and-hash-equal but different values: nothing may key on ==
    'eqhash': [1, True, 1.0, 0, False, 0.0],
}


def model_states(sig, b, mode='tokens'):
  m = M.Model(sig)
  slots = list(range(m.P))
  alphabet = VALUE_MODES[mode]
  for pres in itertools.product((False, True), repeat=m.P):
    for vlen in (range(b['max_v'] + 1) if m.has_var else (0,)):
      for kos in itertools.product((False, True), repeat=len(m.ko_names)):
        extras = [None]
        if m.has_kw:
          extras.append('x1')
          extras.append('x2+x1')      # two extras, set in this order
          # a **kwargs entry named like a positional-only / *args parameter
          if m.po_names:
            extras.append(m.po_names[0])
          if m.has_var:
            extras.append('va')
        for extra in extras:
          mm = M.Model(sig)
          counter = [0]

          def val(token):
            if alphabet is None:
              return token
            counter[0] += 1
            return alphabet[(counter[0] - 1) % len(alphabet)]

          for i in slots:
            if pres[i]:
              mm.prefix[i] = val(f'v_{m.pos[i][0]}')
          mm.V = [val(f'v_va{j}') for j in range(vlen)]
          for n, on in zip(m.ko_names, kos):
            if on:
              mm.K[n] = val(f'v_{n}')
          if extra == 'x2+x1':
            mm.K['x2'] = val('v_x2')
            mm.K['x1'] = val('v_x1')
          elif extra:
            mm.K[extra] = val('v_x1' if extra == 'x1' else 'v_c_' + extra)
          yield mm


def construct(way, fn, model):
  """Builds the real Config in state `model` using `way`; None if the way
  cannot express that state."""
  P = model.P
  setpos = [v is not M.UNSET for v in model.prefix]
  if way == 'ctor_kw':
    # positional-only / *args positionally, everything else by keyword
    last = -1
    for i, (n, k, d) in enumerate(model.pos):
      if k == 'po' and setpos[i]:
        last = i
    if model.V:
      last = P - 1
    if not all(setpos[:last + 1]):
      return None
    args = list(model.prefix[:last + 1]) + list(model.V)
    kwargs = {model.pos[i][0]: model.prefix[i]
              for i in range(last + 1, P) if setpos[i]}
    kwargs.update(model.K)
    return fdl.Config(fn, *args, **kwargs)
  if way == 'ctor_pos':
    # longest contiguous positional prefix positionally
    n = 0
    while n < P and setpos[n]:
      n += 1
    if any(setpos[n:]) and (model.V or any(
        model.pos[i][1] == 'po' for i in range(n, P) if setpos[i])):
      return None
    if model.V and n < P:
      return None
    args = list(model.prefix[:n]) + list(model.V)
    kwargs = {model.pos[i][0]: model.prefix[i]
              for i in range(n, P) if setpos[i]}
    kwargs.update(model.K)
    return fdl.Config(fn, *args, **kwargs)
  if way == 'edit':
    cfg = fdl.Config(fn)
    # highest index first: creates the "unset below set" gaps on the way
    for i in reversed(range(P)):
      if setpos[i]:
        if model.pos[i][1] == 'pk' and i % 2:
          setattr(cfg, model.pos[i][0], model.prefix[i])
        else:
          cfg[i] = model.prefix[i]
    if model.V:
      cfg[fdl.VARARGS:] = list(model.V)
    for n, v in model.K.items():
      setattr(cfg, n, v)
    return cfg
  if way == 'set_then_delete':
    full_args = [f'tmp{i}' for i in range(P)] + list(model.V)
    cfg = fdl.Config(fn, *full_args, **model.K)
    for i in range(P):
      if setpos[i]:
        cfg[i] = model.prefix[i]
      elif model.pos[i][1] == 'pk' and i % 2 == 0:
        delattr(cfg, model.pos[i][0])
      else:
        del cfg[i]
    return cfg
  raise ValueError(way)


WAYS = ('ctor_kw', 'ctor_pos', 'edit', 'set_then_delete')


def reference(fn, model, subst):
  plan = model.call_plan(NO_VALUE)
  if plan[0] == 'raise':
    return ('raise', 'no call can be formed')
  args = [subst.get(a, a) if isinstance(a, str) else a for a in plan[1]]
  kwargs = {k: (subst.get(v, v) if isinstance(v, str) else v)
            for k, v in plan[2].items()}
  try:
    return ('ok', fn(*args, **kwargs))
  except TypeError as e:
    return ('raise', f'direct call raised TypeError: {e}')


def check_case(sig, fname, fn, model, way, nest, res, case):
  """One build vs one direct call."""
  collide = [k for k in model.K if k in model.po_names or k == 'va']
  if collide and way in ('edit', 'set_then_delete'):
    res.counters['way_cannot_express_state'] += 1
    return
  for k in collide:
    i = model.slot_index(k)
    if i is not None and model.prefix[i] is M.UNSET:
      # inspect.Signature.bind_partial rejects f(p0=..) without a positional
      # p0: the constructor cannot express this state
      res.counters['way_cannot_express_state'] += 1
      return
  cfg = construct(way, fn, model)
  if cfg is None:
    res.counters['way_cannot_express_state'] += 1
    return
  res.evals += 1
  # the configuration must report the model's arguments
  try:
    view = cfg[:]
    oa = list(fdl.ordered_arguments(cfg).items())
  except Exception as e:  # pylint: disable=broad-except
    res.violation(f'C01/report-raises/{way}', f'{case}: cfg[:] raised {e!r}',
                  case)
    return
  if fname == 'dataclass_factory':
    view = model.view(NO_VALUE)   # defaults are factories: not comparable
  if _tc(view) != _tc(model.view(NO_VALUE)) or _tc(oa) != _tc(
      model.ordered_arguments(NO_VALUE)):
    res.violation(
        f'C01/reported-arguments/{way}',
        f'{case}: cfg[:]={view!r} ordered_arguments={oa!r} but model '
        f'view={model.view(NO_VALUE)!r} args='
        f'{model.ordered_arguments(NO_VALUE)!r}', case)
    return
  subst = {}
  if nest is not None:
    nname, slotval = nest
    mk_cfg, mk_ref = NEST[nname]
    # substitute the nested value into the real config at the slot
    target = slotval
    nested_cfg = mk_cfg()
    _assign(cfg, model, target, nested_cfg)
  vfx.reset()
  try:
    built = ('ok', fdl.build(cfg))
  except Exception as e:  # pylint: disable=broad-except
    built = ('raise', f'{type(e).__name__}: {str(e)[:200]}')
  n_real = len(vfx.LOG)
  if nest is not None:
    vfx.reset()
    subst[target] = NEST[nest[0]][1]()
  ref = reference(fn, model, subst)
  res.transitions += 1
  okind = f'{fname}:{way}:{"nest-" + nest[0] if nest else "leaf"}:' \
          f'{built[0]}'
  res.outcomes[okind] += 1
  if ref[0] != built[0]:
    cls = 'build-succeeds-where-no-call-exists' if ref[0] == 'raise' else (
        'build-raises-where-call-exists')
    res.violation(
        f'C01/{cls}/{_gapclass(model)}',
        f'{case}: reference {ref[0]} ({ref[1] if ref[0] == "raise" else ""}) '
        f'but build {built[0]}: {built[1]!r}', case)
    return
  if ref[0] == 'ok':
    # dict_order: the order of **kwargs entries is observable by the callee
    c_ref = canon.canon_built(ref[1], dict_order=True)
    c_real = canon.canon_built(built[1], dict_order=True)
    if c_ref != c_real:
      res.violation(
          f'C01/wrong-binding/{_gapclass(model)}',
          f'{case}: direct call gives {ref[1]!r}, build gives {built[1]!r}',
          case)


def _tc(x):
  """Type-exact comparison key (1 != True != 1.0)."""
  if isinstance(x, (list, tuple)):
    return (type(x).__name__, tuple(_tc(v) for v in x))
  return (type(x).__name__, repr(x))


def _gapclass(model):
  setpos = [v is not M.UNSET for v in model.prefix]
  gap = any((not setpos[i]) and any(setpos[i + 1:]) for i in range(model.P))
  gapv = (not all(setpos)) and bool(model.V)
  return ('gap-below-set-positional' if gap else '') + (
      'unset-prefix-under-varargs' if gapv else '') or 'no-gap'


def _assign(cfg, model, target, value):
  """Replaces the leaf `target` (a 'v_<name>' token) by `value` in cfg."""
  name = target[2:]
  for i, (n, k, d) in enumerate(model.pos):
    if n == name:
      cfg[i] = value
      return
  if name.startswith('va'):
    cfg[model.P + int(name[2:])] = value
    return
  setattr(cfg, name, value)


NEST = nestings()


def run_unit(unit, tier, seed):
  sig = tuple(unit[:4]) + (tuple(unit[4]), unit[5])
  b = bounds(tier)
  res = core.Result()
  states = list(model_states(sig, b))
  for fname, fn in flavours(sig):
    for model in states:
      if fname == 'unhashable_instance':
        fn = unhashable_instance(sig)     # fresh object for every state
      res.states += 1
      nset = sum(v is not M.UNSET for v in model.prefix) + len(
          model.V) + len(model.K)
      if nset:
        res.nontrivial += 1
      for way in WAYS:
        case = {'sig': unit, 'flavour': fname, 'state': core.jsonable(
            model.key()), 'way': way, 'nest': None}
        check_case(sig, fname, fn, model, way, None, res, case)
      if fname in ('fn', 'cls'):
        pass
      # nesting menu: on every set slot, via the edit way (function flavour),
      # and on the first set slot for every other flavour
      tokens = [v for v in model.prefix if v is not M.UNSET] + list(
          model.V) + list(model.K.values())
      if not tokens:
        continue
      tokens = [t for t in tokens if not str(t).startswith('v_c_')]
      if not tokens or any(k in model.po_names or k == 'va' for k in model.K):
        continue
      targets = tokens if fname == 'fn' else tokens[:1]
      for nname in NEST:
        for t in targets:
          case = {'sig': unit, 'flavour': fname, 'state': core.jsonable(
              model.key()), 'way': 'edit', 'nest': [nname, t]}
          check_case(sig, fname, fn, model, 'edit', (nname, t), res, case)
  for mode in ('none', 'falsy', 'eqhash'):
    for fname, fn in flavours(sig)[:2]:
      for model in model_states(sig, b, mode):
        if not (any(v is not M.UNSET for v in model.prefix) or model.V or
                model.K):
          continue
        res.states += 1
        res.nontrivial += 1
        for way in ('ctor_kw', 'edit'):
          case = {'sig': unit, 'flavour': fname, 'state': core.jsonable(
              model.key()), 'way': way, 'nest': None, 'mode': mode}
          check_case(sig, fname, fn, model, way, None, res, case)
  res.sample({'signature': S.param_src(sig), 'states': len(states),
              'flavours': [f for f, _ in flavours(sig)]})
  return res


def replay(case):
  res = core.Result()
  unit = case['sig']
  sig = tuple(unit[:4]) + (tuple(unit[4]), unit[5])
  fn = dict(flavours(sig))[case['flavour']]
  if fn is None:
    fn = unhashable_instance(sig)
  st = case['state']
  model = M.Model(sig, (tuple(st[0]), tuple(st[1]),
                        tuple(tuple(kv) for kv in st[2])))
  fix = lambda v: () if v == [] else v
  model.prefix = [fix(v) for v in model.prefix]
  model.V = [fix(v) for v in model.V]
  model.K = {k: fix(v) for k, v in model.K.items()}
  nest = tuple(case['nest']) if case['nest'] else None
  print('signature:', S.param_src(sig), ' flavour:', case['flavour'])
  print('model state:', model.key(), ' way:', case['way'], ' nest:', nest)
  cfg = construct(case['way'], fn, model)
  print('config:', cfg, ' cfg[:]=', cfg[:] if cfg is not None else None)
  print('reference call plan:', model.call_plan(NO_VALUE))
  check_case(sig, case['flavour'], fn, model, case['way'], nest, res, case)
  return res
