"""C02: one invocation per Buildable instance; built graph mirrors config graph."""
from __future__ import annotations

import collections
import functools

import fiddle as fdl
from mc import canon
from mc import core
from mc import shapes
import vfx
from vfx import nodes as N

PROP = 'C02'
LEVEL = 'model_checking'
TECHNIQUE = ('bounded-exhaustive DAG-shape enumeration; real fdl.build vs an '
             'independent memoising reference builder and the invocation log')
RULE = ('all DAG shapes (topologically ordered node lists, every slot unset / '
        'leaf / reference to an earlier node, all nodes reachable, isomorphic '
        'duplicates removed) over the kind menu up to N nodes; a shape is '
        'non-trivial when it contains at least one shared reference or two '
        'Buildables; plus every shape with a callable that records its '
        'invocation and then raises from its body (TypeError, a TypeError '
        'subclass, RuntimeError): no node is invoked twice in a failing '
        'build either, and the next build of the same objects reuses nothing '
        'of the failed one; container kinds include named tuples, a class '
        'derived from a named tuple and defaultdicts')
ASSUMPTIONS = [
    'the reference builder memoises by object identity for Buildables, lists, '
    'dicts, non-empty tuples and the Tmp node, which is what the statement '
    'prescribes',
    'injectivity (distinct config objects give distinct built objects) is '
    'judged for Buildables, lists and dicts only (tuples may be interned)',
    'depth chains (50/150/400) are a stated sample of depth, not an '
    'enumeration',
]
LEVEL_TEXT = ('Every DAG shape up to the node bound is built by the real '
              'fdl.build; invocation count, dependency order, the config->built '
              'object map (function, injective), freshness across builds and '
              'structural equality with a reference build are checked on each.')
LEVEL_NOTE = ('Trusted: vfx recording callables and LOG, mc.canon, the '
              'reference builder in this file. Bounds: N<=3 full menu / N<=4 '
              'reduced menu (quick); N<=3 full with two leaves, N<=4 reduced with '
              'two leaves, N<=5 smallest menu (thorough).')

MENUS = {
    'full': ['cfg', 'cfgb', 'par', 'list1', 'list2', 'tuple2', 'dict2', 'nt',
             'tmp', 'tuple0', 'list0'],
    'mid': ['cfg', 'list2', 'tuple2', 'dict1', 'tmp'],
    'nt': ['cfg', 'par', 'nt', 'ntsub', 'ddict1', 'list1'],
    'tagged': ['cfg', 'list2', 'dict1', 'tvv'],
    'small': ['cfg', 'list2', 'tuple1'],
    'failing': ['cfg', 'cfgfail', 'list2'],
}


def bounds(tier):
  if tier == 'quick':
    return {'plans': [['full', 3, 1], ['mid', 4, 1], ['tagged', 4, 1],
                      ['nt', 3, 1]],
            'chains': [50, 150]}
  return {'plans': [['full', 3, 2], ['mid', 4, 2], ['small', 5, 1],
                    ['tagged', 4, 2], ['nt', 3, 2]],
          'chains': [50, 150, 250]}


NCHUNK = 32


def units(tier, seed):
  out = []
  for menu, n, nl in bounds(tier)['plans']:
    for k in range(NCHUNK):
      out.append(('shapes', menu, n, nl, k))
  for d in bounds(tier)['chains']:
    out.append(('chain', d))
  out += [('failing', k) for k in range(4)]
  return out


# ---------------------------------------------------------------- reference
def ref_build(x, memo):
  i = id(x)
  if i in memo:
    return memo[i][1]
  if _is_tv(x):
    out = ref_build(x.__arguments__['value'], memo)   # builds to its value
    memo[i] = (x, out)
    return out
  if isinstance(x, fdl.Buildable):
    kwargs = {k: ref_build(v, memo) for k, v in _ordered_items(x)}
    fn = x.__fn_or_cls__
    if isinstance(x, fdl.Partial):
      out = functools.partial(fn, **kwargs)
    else:
      out = fn(**kwargs)
  elif type(x) is list:
    out = [ref_build(v, memo) for v in x]
  elif type(x) is tuple:
    out = tuple(ref_build(v, memo) for v in x)
    if not x:
      return out
  elif canon.is_namedtuple(x):
    out = type(x)(*[ref_build(v, memo) for v in x])
  elif type(x) is dict:
    out = {k: ref_build(v, memo) for k, v in x.items()}
  elif type(x) is collections.defaultdict:
    out = collections.defaultdict(
        x.default_factory, {k: ref_build(v, memo) for k, v in x.items()})
  elif type(x) is N.Tmp:
    out = N.Tmp(ref_build(x.a, memo), ref_build(x.b, memo))
  else:
    return x
  memo[i] = (x, out)
  return out


def _is_tv(x):
  return type(x).__name__ == 'TaggedValueCls'


def _ordered_items(b):
  names = [p for p in b.__signature_info__.signature.parameters]
  return [(n, b.__arguments__[n]) for n in names if n in b.__arguments__]


def pair_walk(cfg, built, fmap, problems, path='<root>'):
  """Parallel walk (no memo) recording the config-object -> built-object map."""
  key = None
  if _is_tv(cfg):
    # a stand-alone TaggedValue is transparent: it builds to its value
    prev = fmap.get(id(cfg))
    if prev is None:
      fmap[id(cfg)] = (cfg, built, 'tv', path)
    elif prev[1] is not built:
      problems.append(f'the same TaggedValue at {prev[3]} and {path} received '
                      f'two different built objects')
      return
    pair_walk(cfg.__arguments__['value'], built, fmap, problems,
              path + '.value')
    return
  if isinstance(cfg, fdl.Buildable):
    key = 'B'
  elif type(cfg) is list:
    key = 'list'
  elif type(cfg) in (dict, collections.defaultdict):
    key = 'dict'
  elif isinstance(cfg, tuple) and cfg != ():
    key = 'tuple'
  elif type(cfg) is N.Tmp:
    key = 'tmp'
  if key is not None:
    prev = fmap.get(id(cfg))
    if prev is None:
      fmap[id(cfg)] = (cfg, built, key, path)
    elif prev[1] is not built:
      problems.append(
          f'the same {key} object at {prev[3]} and {path} received two '
          f'different built objects')
      return
  if isinstance(cfg, fdl.Config):
    if not isinstance(built, vfx.Rec):
      problems.append(f'{path}: Config built to {type(built).__name__}')
      return
    for n, v in _ordered_items(cfg):
      if n not in built.bound:
        problems.append(f'{path}: argument {n} not passed')
        return
      pair_walk(v, built.bound[n], fmap, problems, f'{path}.{n}')
  elif isinstance(cfg, fdl.Partial):
    if not isinstance(built, functools.partial):
      problems.append(f'{path}: Partial built to {type(built).__name__}')
      return
    for n, v in _ordered_items(cfg):
      if n not in built.keywords:
        problems.append(f'{path}: partial keyword {n} missing')
        return
      pair_walk(v, built.keywords[n], fmap, problems, f'{path}.{n}')
  elif isinstance(cfg, (list, tuple)):
    if type(built) is not type(cfg) or len(built) != len(cfg):
      problems.append(f'{path}: container type/length differs')
      return
    for i, (a, b) in enumerate(zip(cfg, built)):
      pair_walk(a, b, fmap, problems, f'{path}[{i}]')
  elif type(cfg) in (dict, collections.defaultdict):
    if type(built) is not type(cfg) or list(built) != list(cfg):
      problems.append(f'{path}: dict keys differ')
      return
    for k in cfg:
      pair_walk(cfg[k], built[k], fmap, problems, f'{path}[{k!r}]')
  elif type(cfg) is N.Tmp:
    if type(built) is not N.Tmp:
      problems.append(f'{path}: Tmp built to {type(built).__name__}')
      return
    pair_walk(cfg.a, built.a, fmap, problems, f'{path}.a')
    pair_walk(cfg.b, built.b, fmap, problems, f'{path}.b')


def deps(cfg, acc=None):
  """Config instances reachable from cfg (excluding cfg), by identity."""
  acc = {} if acc is None else acc

  def walk(v, top):
    if isinstance(v, fdl.Buildable):
      if not top:
        if id(v) in acc:
          return
        acc[id(v)] = v
      for a in v.__arguments__.values():
        walk(a, False)
    elif isinstance(v, (list, tuple)):
      for a in v:
        walk(a, False)
    elif isinstance(v, dict):
      for a in v.values():
        walk(a, False)
    elif type(v) is N.Tmp:
      walk(v.a, False)
      walk(v.b, False)

  walk(cfg, True)
  return acc


def check_root(root, res, case, label):
  vfx.reset()
  try:
    built = fdl.build(root)
  except RecursionError:
    # beyond the interpreter's recursion budget: outside the property
    res.counters['recursion_budget_exceeded'] += 1
    return
  except Exception as e:  # pylint: disable=broad-except
    res.violation(f'C02/build-raises/{label}',
                  f'{case}: build raised {type(e).__name__}: {e}', case)
    return
  log = list(vfx.LOG)
  res.transitions += 1
  # (iii) function + injective
  fmap = {}
  problems = []
  pair_walk(root, built, fmap, problems)
  if problems:
    res.violation(f'C02/object-map-not-a-function/{label}',
                  f'{case}: {problems[0]}', case)
    return
  by_built = {}
  for cid, (c, b, key, path) in fmap.items():
    if key in ('B', 'list', 'dict', 'tmp'):
      other = by_built.get(id(b))
      if other is not None and other[0] is not c:
        res.violation(
            f'C02/distinct-{key}-instances-share-a-built-object/{label}',
            f'{case}: distinct config objects at {other[1]} and {path} were '
            f'given the same built object', case)
        return
      by_built[id(b)] = (c, path)
  # (i) one invocation per Config instance
  configs = {cid: c for cid, (c, b, key, p) in fmap.items()
             if isinstance(c, fdl.Config) and not _is_tv(c)}
  if len(log) != len(configs):
    res.violation(
        f'C02/invocation-count/{label}',
        f'{case}: {len(configs)} distinct Config instances reachable but '
        f'{len(log)} invocations', case)
    return
  serial_of = {}
  for cid, (c, b, key, p) in fmap.items():
    if isinstance(c, fdl.Config) and not _is_tv(c):
      serial_of[cid] = b.serial
  if len(set(serial_of.values())) != len(serial_of):
    res.violation(f'C02/invocation-count/{label}',
                  f'{case}: two Config instances share one invocation', case)
    return
  # (ii) dependency order
  for cid, c in configs.items():
    for did in deps(c):
      if did in serial_of and serial_of[did] > serial_of[cid]:
        res.violation(
            f'C02/dependency-order/{label}',
            f'{case}: a Config was invoked before one it depends on', case)
        return
  # (v) structural equality with the reference build
  vfx.reset()
  ref = ref_build(root, {})
  c_ref = canon.canon_built(ref)
  c_real = canon.canon_built(built)
  if c_ref != c_real:
    res.violation(f'C02/structure-differs-from-reference/{label}',
                  f'{case}: reference {c_ref} real {c_real}', case)
    return
  # (iv) separate builds share nothing
  vfx.reset()
  built2 = fdl.build(root)
  res.transitions += 1
  m1 = canon.mutable_ids(built)
  m2 = canon.mutable_ids(built2)
  common = set(m1) & set(m2)
  if common:
    res.violation(f'C02/separate-builds-share-objects/{label}',
                  f'{case}: {len(common)} built objects shared between two '
                  f'fdl.build calls, e.g. {m1[next(iter(common))]!r}', case)
    return
  if canon.canon_built(built2) != c_real:
    res.violation(f'C02/second-build-differs/{label}', f'{case}', case)
    return
  res.outcomes[f'{label}:configs={min(len(configs), 4)}:'
               f'shared={any(True for _ in [0]) and _has_sharing(root)}'] += 1


def _has_sharing(root):
  seen = set()
  shared = [False]

  def walk(v):
    if isinstance(v, (fdl.Buildable, list, dict)) or type(v) is N.Tmp:
      if id(v) in seen:
        shared[0] = True
        return
      seen.add(id(v))
    if isinstance(v, fdl.Buildable):
      for a in v.__arguments__.values():
        walk(a)
    elif isinstance(v, (list, tuple)):
      for a in v:
        walk(a)
    elif isinstance(v, dict):
      for a in v.values():
        walk(a)
    elif type(v) is N.Tmp:
      walk(v.a)
      walk(v.b)

  walk(root)
  return shared[0]


LEAVES = ['L1', 'L2']


def _kinds(menu):
  ks = shapes.std_kinds(MENUS[menu])
  return ks, {k.name: k for k in ks}


def run_unit(unit, tier, seed):
  res = core.Result()
  leaves = LEAVES if seed % 2 == 0 else ['M1', 'M2']
  if unit[0] == 'chain':
    d = unit[1]
    for flavour in ('config', 'list', 'mixed'):
      root = _chain(d, flavour)
      res.states += 1
      res.nontrivial += 1
      check_root(root, res, {'chain': d, 'flavour': flavour}, f'chain')
    res.sample({'chain_depth': d})
    return res
  if unit[0] == 'failing':
    run_failing(unit[1], res, 3 if tier == 'quick' else 4)
    return res
  _, menu, n, nl, k = unit
  ks, byname = _kinds(menu)
  for idx, shape in enumerate(shapes.all_shapes(ks, n, nl)):
    if idx % NCHUNK != k:
      continue
    objs = shapes.materialize(shape, byname, leaves)
    root = objs[-1]
    res.states += 1
    res.evals += 1
    nb = sum(1 for kind, _ in shape if byname[kind].is_buildable)
    if nb == 0:
      res.counters['no_buildable_in_shape'] += 1
    if nb >= 2 or _has_sharing(root):
      res.nontrivial += 1
    check_root(root, res, {'menu': menu, 'shape': shape, 'nleaves': nl},
               f'n{len(shape)}')
    if idx % 997 == 0:
      res.sample({'shape': shape, 'repr': repr(root)[:200]})
  return res


class _BodyTypeError(TypeError):
  pass


def run_failing(k, res, n, only=None):
  """Builds that fail: also then no Buildable is invoked more than once (the
  failing callable records its invocation, then raises from its body); the
  build stops at the first failure."""
  ks, byname = _kinds('failing')
  excs = {'TypeError': lambda: TypeError('raised from the body'),
          'TypeError-subclass': lambda: _BodyTypeError('from the body'),
          'RuntimeError': lambda: RuntimeError('from the body')}
  for idx, shape in enumerate(shapes.all_shapes(ks, n, 1)):
    if only is not None:
      if shape != only:
        continue
    elif idx % 4 != k:
      continue
    if not any(kind == 'cfgfail' for kind, _ in shape):
      continue
    for ename, mk_exc in excs.items():
      objs = shapes.materialize(shape, byname, LEAVES)
      root = objs[-1]
      nconfigs = sum(1 for o in objs if isinstance(o, fdl.Config))
      case = {'menu': 'failing', 'shape': shape, 'exception': ename}
      res.states += 1
      res.evals += 1
      res.nontrivial += 1
      vfx.reset()
      vfx.FAIL['exc'] = mk_exc
      try:
        fdl.build(root)
        outcome = 'ok'
      except Exception as e:  # pylint: disable=broad-except
        outcome = 'raise'
      res.transitions += 1
      log = [key for _, key, _ in vfx.LOG]
      res.outcomes[f'failing:{ename}:{outcome}'] += 1
      if outcome == 'ok':
        res.violation(f'C02/failing-build-succeeds/{ename}',
                      f'{case}: log {log}', case)
      elif log.count('failer') != 1 or log[-1] != 'failer' or (
          len(log) > nconfigs):
        res.violation(
            f'C02/invoked-more-than-once-in-a-failing-build/{ename}',
            f'{case}: invocation log {log} (expected: every node at most '
            f'once, the failing one exactly once and last)', case)
      else:
        # the next build of the same objects (the callable no longer fails)
        # is a build like any other: nothing of the failed one is reused
        n_before = len(res.violations)
        check_root(root, res, dict(case, phase='build-after-failed-build'),
                   'after-failed-build')
        if len(res.violations) > n_before:
          continue


def _chain(d, flavour):
  node = fdl.Config(N.node, x='leaf')
  shared = fdl.Config(N.node_b, x='shared')
  for i in range(d):
    if flavour == 'config':
      node = fdl.Config(N.node, x=node, y=shared if i % 7 == 0 else 'dy')
    elif flavour == 'list':
      node = [node, shared] if i % 2 else (node,)
    else:
      node = fdl.Config(N.node, x=[{'k': node}], y=shared)
  return node


def replay(case):
  res = core.Result()
  if case.get('menu') == 'failing':
    shape = tuple((k, tuple(tuple(s) if isinstance(s, list) else s
                            for s in sl)) for k, sl in case['shape'])
    run_failing(0, res, len(shape), only=shape)
    for v in res.violations:
      print(v['what'])
    return res
  if 'chain' in case:
    check_root(_chain(case['chain'], case['flavour']), res, case, 'chain')
    return res
  ks, byname = _kinds(case['menu'])
  shape = tuple((k, tuple(tuple(s) if isinstance(s, list) else s
                          for s in sl)) for k, sl in case['shape'])
  objs = shapes.materialize(shape, byname, LEAVES)
  print('config:', objs[-1])
  vfx.reset()
  try:
    print('built :', fdl.build(objs[-1]))
    print('log   :', [(s, k) for s, k, _ in vfx.LOG])
  except Exception as e:  # pylint: disable=broad-except
    print('build raised', repr(e))
  check_root(objs[-1], res, case, f'n{len(shape)}')
  return res
