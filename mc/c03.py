"""C03: attribute, index and slice edits behave like edits to a bound-argument list.

Explicit-state BFS over the real transition function, against mc.argmodel.
"""
from __future__ import annotations

import collections
import itertools

import fiddle as fdl
from mc import argmodel as M
from mc import canon
from mc import core
import vfx
from vfx import sigs as S

PROP = 'C03'
LEVEL = 'model_checking'
RULE = ('explicit-state BFS per signature: states are reference-model states '
        '(prefix slots x *args list x keyword dict); each transition replays '
        'the BFS history on a fresh real fdl.Config and applies one operation '
        'of the complete alphabet (get/set/del by name, index, negative index, '
        'VARARGS, slice; slices deduplicated per state by CPython normal form '
        'x raw-form class); a state is distinct by model key; plus three *args '
        'values on the smallest prefixes, and the spellings unit (one function '
        'as plain function / bound method / classmethod / underlying function '
        'configured in every order, reference inspect.signature).')
ASSUMPTIONS = [
    'any Exception subclass is accepted where the statement says "raises"',
    'deleting an already-unset prefix slot may raise or be a no-op',
    'del of a prefix index unsets the slot (Config docstring), it never shifts',
    'fdl.VARARGS on a callable without *args and the **kwargs parameter name '
    'itself as an attribute are out of domain (skipped, counted)',
    'dir(cfg) is judged as: does not raise, and equals the set of names '
    'addressable by attribute (pos-or-kw, kw-only, set extra names)',
]

NO_VALUE = fdl.NO_VALUE
FLAGS = M.legal_flag_combos()
LIGHT = [
    dict(include_var_keyword=True, include_defaults=False, include_unset=False,
         include_positional=True, include_equal_to_default=True),
    dict(include_var_keyword=True, include_defaults=True, include_unset=True,
         include_positional=True, include_equal_to_default=True),
]


def bounds(tier):
  if tier == 'quick':
    return dict(max_po=1, max_pk=2, max_ko=1, vcap=2, rhs_len=3,
                values=['A', 'B'], probe_values=['X', 'Y', 'Z'])
  return dict(max_po=1, max_pk=2, max_ko=1, vcap=3, rhs_len=3,
              values=['A', 'B'], probe_values=['X', 'Y', 'Z'])


def units(tier, seed):
  b = bounds(tier)
  out = []
  for sig in S.all_sigs(b['max_po'], b['max_pk'], b['max_ko']):
    po, pk, nd, var, ko, kw = sig
    # positional phase: keyword part only in two representative shapes
    if (ko, kw) in (((), False), ((False,), True)):
      out.append(('P', sig, b['vcap']))
    # keyword phase: positional part only in two representative shapes
    if (po, pk, nd) in ((0, 0, 0), (1, 1, 1), (0, 2, 0)) and po <= b['max_po']:
      out.append(('K', sig, b['vcap']))
  if b['vcap'] < 3:
    # three *args values (stepped slices over a longer variadic tail) on the
    # smallest prefixes
    for sig in S.all_sigs(b['max_po'], b['max_pk'], b['max_ko']):
      po, pk, nd, var, ko, kw = sig
      if var and (ko, kw) == ((), False) and po + pk <= 1 and nd == 0:
        out.append(('P', sig, 3))
  out.append(('spellings', (0, 0, 0, False, (), False), 0))
  # cheapest first so the first counterexample is the simplest
  # biggest state spaces first (load balance); the minimal witness per
  # violation class is selected by the runner, not by visiting order.
  out.sort(key=lambda u: (u[0] != "P", -(u[1][0] + u[1][1]), not u[1][3], u))
  return out


# ---------------------------------------------------------------- real side
def real_key(x):
  return fdl.VARARGS if x == M.VA else x


def real_apply(cfg, op):
  """Applies op to the real config; returns ('ok', value) or ('raise', exc)."""
  kind = op[0]
  try:
    if kind == 'get':
      return 'ok', getattr(cfg, op[1])
    if kind == 'set':
      setattr(cfg, op[1], op[2])
      return 'ok', None
    if kind == 'del':
      delattr(cfg, op[1])
      return 'ok', None
    if kind == 'geti':
      return 'ok', cfg[real_key(op[1])]
    if kind == 'seti':
      cfg[real_key(op[1])] = op[2]
      return 'ok', None
    if kind == 'deli':
      del cfg[real_key(op[1])]
      return 'ok', None
    sl = slice(*[real_key(x) for x in op[1]])
    if kind == 'gets':
      return 'ok', cfg[sl]
    if kind == 'sets':
      cfg[sl] = list(op[2])
      return 'ok', None
    if kind == 'dels':
      del cfg[sl]
      return 'ok', None
  except Exception as e:  # pylint: disable=broad-except
    return 'raise', e
  raise ValueError(op)


def materialize(sig, init, hist):
  fn = S.fn(sig)
  if init and init[0][0] == '@pos0':
    cfg = fdl.Config(fn, init[0][1], **dict(init[1:]))
  elif init:
    cfg = fdl.Config(fn, **dict(init))
  else:
    cfg = fdl.Config(fn)
  for op in hist:
    real_apply(cfg, op)
  return cfg


def observe(cfg, model, full):
  """Returns a list of (what, real, expected) mismatches."""
  bad = []
  try:
    real = cfg[:]
  except Exception as e:  # pylint: disable=broad-except
    real = ('raised', type(e).__name__)
  exp = model.view(NO_VALUE)
  if real != exp or [type(v) for v in real] != [type(v) for v in exp]:
    bad.append(('cfg[:]', repr(real), repr(exp)))
  combos = FLAGS if full else LIGHT
  for kw in combos:
    try:
      real = list(fdl.ordered_arguments(cfg, **kw).items())
    except Exception as e:  # pylint: disable=broad-except
      real = ('raised', type(e).__name__, str(e)[:80])
    exp = model.ordered_arguments(NO_VALUE, **kw)
    if real != exp:
      bad.append((f'ordered_arguments({kw})', repr(real), repr(exp)))
  if full:
    n = model.P + len(model.V)
    for i in range(-n, n):
      try:
        real = cfg[i]
      except Exception as e:  # pylint: disable=broad-except
        real = ('raised', type(e).__name__)
      exp = model.view(NO_VALUE)[i]
      if real != exp:
        bad.append((f'cfg[{i}]', repr(real), repr(exp)))
    for name in model.pk_names + model.ko_names + sorted(
        set(model.K) - set(model.ko_names)):
      st, val, _ = model.op_get(name, NO_VALUE)
      try:
        real = ('ok', getattr(cfg, name))
      except Exception as e:  # pylint: disable=broad-except
        real = ('raise', None)
      if real != (st, val):
        bad.append((f'getattr {name}', repr(real), repr((st, val))))
    try:
      d = dir(cfg)
      real = sorted(x for x in d if not (
          isinstance(x, str) and x.startswith('__')))
      if any(not isinstance(x, str) for x in d):
        real = ('non-str entries', repr(d))
    except Exception as e:  # pylint: disable=broad-except
      real = ('raised', type(e).__name__, str(e)[:80])
    exp = sorted(model.dir_names())
    if real != exp:
      bad.append(('dir(cfg)', repr(real), repr(exp)))
  return bad


# ---------------------------------------------------------------- alphabets
def raw_class(x, n):
  if x is None:
    return 'N'
  if x == M.VA:
    return 'VA'
  if x < -n:
    return 'oor-'
  if x < 0:
    return 'neg'
  if x > n:
    return 'oor+'
  return 'pos'


def slice_alphabet(model):
  """Representatives: one per CPython normal form (index list, or insertion
  point for empty ranges, with step) and one per raw-form class (how start and
  stop are spelled: None / VARARGS / negative / in range / out of range, and
  the sign of the step) -- the two things Fiddle's own code branches on."""
  n = model.P + len(model.V)
  pts = [None] + ([M.VA] if model.has_var else []) + list(
      range(-(n + 1), n + 2))
  seen_norm = set()
  seen_raw = set()
  out = []
  for step in (None, 1, -1, 2, -2):
    sgn = 'N' if step is None else ('+' if step > 0 else '-')
    for start in pts:
      for stop in pts:
        rs = model.P if start == M.VA else start
        re = model.P if stop == M.VA else stop
        norm = slice(rs, re, step).indices(n)
        kn = (tuple(range(*norm)) or ('empty', norm[0]), norm[2])
        kr = (raw_class(start, n), raw_class(stop, n), sgn)
        if kn in seen_norm and kr in seen_raw:
          continue
        seen_norm.add(kn)
        seen_raw.add(kr)
        out.append([start, stop, step])
  return out


def positional_ops(model, b):
  A, B = b['values']
  X, Y, Z = b['probe_values']
  n = model.P + len(model.V)
  ops = []
  idxs = list(range(-(n + 1), n + 2)) + ([M.VA] if model.has_var else [])
  for i in idxs:
    ops.append(('geti', i))
    ops.append(('seti', i, A))
    ops.append(('seti', i, B))
    ops.append(('deli', i))
  for name in model.pk_names:
    ops.append(('get', name))
    ops.append(('set', name, A))
    ops.append(('set', name, B))
    ops.append(('del', name))
  for name in model.po_names + (['va'] if model.has_var else []):
    ops.append(('get', name))
    ops.append(('set', name, A))
    ops.append(('del', name))
  # generating slice assignments (values from the state alphabet)
  if model.has_var:
    for ln in range(0, b['vcap'] + 1):
      for rhs in itertools.product((A, B), repeat=ln):
        ops.append(('sets', [M.VA, None, None], list(rhs)))
  else:
    ops.append(('gets', [M.VA, None, None]))   # counted as skipped
  probes = [[], [X], [X, Y], [X, Y, Z], [X, Y, Z, X]]
  for s in slice_alphabet(model):
    ops.append(('gets', s))
    ops.append(('dels', s))
    sl = slice(*[model.P if x == M.VA else x for x in s])
    k = len(range(*sl.indices(n)))
    for ln in sorted({0, k - 1, k, k + 1}):
      if 0 <= ln <= b['rhs_len'] + 1:
        ops.append(('sets', s, probes[ln]))
  return ops


def keyword_ops(model, b):
  A, B = b['values']
  names = list(model.ko_names) + ['x1', 'x2']
  ops = []
  for name in names:
    ops.append(('get', name))
    ops.append(('set', name, A))
    ops.append(('set', name, B))
    ops.append(('del', name))
  for name in model.po_names + (['va'] if model.has_var else []) + (
      ['kw'] if model.has_kw else []):
    ops.append(('get', name))
    ops.append(('set', name, A))
    ops.append(('del', name))
  for name in model.pk_names:
    ops.append(('get', name))
    ops.append(('set', name, B))
    ops.append(('del', name))
  ops.append(('gets', [None, None, None]))
  return ops


# ---------------------------------------------------------------- search
def classify(op, model):
  kind = op[0]
  if kind in ('get', 'set', 'del'):
    return f'{kind}:{model.name_kind(op[1]) or "extra"}'
  if kind in ('geti', 'seti', 'deli'):
    i = op[1]
    if i == M.VA:
      return f'{kind}:VA'
    n = model.P + len(model.V)
    j = i + n if i < 0 else i
    where = 'oor' if not 0 <= j < n else ('prefix' if j < model.P else 'var')
    return f'{kind}:{"neg" if i < 0 else "pos"}:{where}'
  s = op[1]
  n = model.P + len(model.V)
  try:
    sl = slice(*[model.P if x == M.VA else x for x in s])
    idx = list(range(*sl.indices(n)))
  except TypeError:
    idx = []
  touches = ('prefix' if any(i < model.P for i in idx) else '') + (
      'var' if any(i >= model.P for i in idx) else '')
  step = s[2] if s[2] is not None else 1
  return (f'{kind}:{touches or "empty"}:step{"+" if step > 0 else "-"}'
          f'{abs(step)}' + (f':rhs{len(op[2])}' if kind == 'sets' else ''))


def explore(sig, phase, b, res, first_only=True):
  inits = []
  m0 = M.Model(sig)
  inits.append(((), m0))
  A, B = b['values']
  if phase == 'P':
    m1 = M.Model(sig)
    kws = {}
    for n in m1.ko_names:
      kws[n] = A
    if m1.has_kw:
      kws['x1'] = A
    if kws:
      m1.K = dict(kws)
      inits.append((tuple(kws.items()), m1))
  else:
    m1 = M.Model(sig)
    hist = []
    for i in range(m1.P):
      m1.prefix[i] = A
      hist.append(('seti', i, A))
    if m1.has_var:
      m1.V = [B]
      hist.append(('sets', [M.VA, None, None], [B]))
    if hist:
      inits.append((None, m1, hist))
    # a **kwargs entry named like a positional-only / *args parameter can
    # only come from the constructor; by attribute those names stay rejected
    m2 = M.Model(sig)
    if m2.has_kw and m2.po_names:
      m2.prefix[0] = A
      m2.K[m2.po_names[0]] = B
      inits.append(((('@pos0', A), (m2.po_names[0], B)), m2))
  seen = {}
  frontier = collections.deque()
  for it in inits:
    init, model = it[0], it[1]
    hist = list(it[2]) if len(it) > 2 else []
    seen[model.key()] = (init or (), hist)
    frontier.append(model)
  allowed = set(b['values'])
  while frontier:
    model = frontier.popleft()
    init, hist = seen[model.key()]
    res.states += 1
    # state check: BFS-history materialisation, full observables
    cfg = materialize(sig, init, hist)
    bad = observe(cfg, model, full=True)
    res.transitions += 1
    if bad:
      res.violation(
          f'C03/state-observables/{bad[0][0].split("(")[0]}',
          f'sig={S.sig_name(sig)} after {list(init)}+{hist}: {bad[0][0]} '
          f'real={bad[0][1]} expected={bad[0][2]}',
          {'sig': list(sig), 'init': list(init), 'hist': hist, 'op': None})
      continue
    # differential: canonical construction of the same state
    cfg2 = canonical_build(sig, model)
    c1 = canon.canon_cfg(cfg)
    c2 = canon.canon_cfg(cfg2) if cfg2 is not None else c1
    res.transitions += 1
    if c1 != c2:
      res.violation(
          'C03/differential-construction',
          f'sig={S.sig_name(sig)} state via {list(init)}+{hist} differs from '
          f'direct construction: {c1} vs {c2}',
          {'sig': list(sig), 'init': list(init), 'hist': hist, 'op': None})
    ops = positional_ops(model, b) if phase == 'P' else keyword_ops(model, b)
    # The live config is reused for the next operation only while the light
    # observation shows it is still in this state (reads, rejected edits).
    live = None
    for op in ops:
      st, val, nm = model.apply(op, NO_VALUE)
      if st == 'skip':
        res.counters['skipped_out_of_domain'] += 1
        continue
      if live is None:
        live = materialize(sig, init, hist)
      cfg = live
      rst, rval = real_apply(cfg, op)
      res.transitions += 1
      cls = classify(op, model)
      res.outcomes[f'{cls}->{rst if st != "either" else "either-" + rst}'] += 1
      what = None
      if st == 'either':
        post = model if rst == 'raise' else nm
      elif st != rst:
        what = (f'model expects {st}, real {rst}'
                f'{" " + type(rval).__name__ + ": " + str(rval)[:120] if rst == "raise" else ""}')
        post = model if rst == 'raise' else nm
        if st == 'raise' and rst == 'ok':
          post = model
      else:
        post = nm if st == 'ok' else model
        if st == 'ok' and op[0] in ('get', 'geti', 'gets') and (
            rval != val or type(rval) is not type(val)):
          what = f'read returned {rval!r}, model {val!r}'
      if what is None:
        bad = observe(cfg, post, full=False)
        if bad:
          what = (f'after op: {bad[0][0]} real={bad[0][1]} '
                  f'expected={bad[0][2]}')
          cls += '/post-state'
          if st == 'raise' or (st == 'either' and rst == 'raise'):
            cls += '-after-rejected-edit'
      if what is not None:
        live = None
        res.violation(
            f'C03/{cls}',
            f'sig={S.sig_name(sig)} state={model.key()} op={op}: {what}',
            {'sig': list(sig), 'init': list(init), 'hist': hist, 'op': op})
        continue
      if post is not model:
        live = None
        k = post.key()
        if k not in seen and len(post.V) <= b['vcap'] and all(
            v in allowed for v in itertools.chain(
                (x for x in k[0] if x != M.UNSET_KEY), k[1],
                (kv[1] for kv in k[2]))):
          seen[k] = (init, hist + [op])
          frontier.append(post)
  return len(seen)


def canonical_build(sig, model):
  fn = S.fn(sig)
  collide = [n for n in model.K if n in model.po_names or n == 'va']
  if collide:
    if model.prefix[0] is M.UNSET:
      return None          # not constructible directly: no differential
    cfg = fdl.Config(fn, model.prefix[0], **{n: model.K[n] for n in collide})
    for i, v in enumerate(model.prefix):
      if v is not M.UNSET and i > 0:
        cfg[i] = v
    if model.V:
      cfg[fdl.VARARGS:] = list(model.V)
    for n, v in model.K.items():
      if n not in collide:
        setattr(cfg, n, v)
    return cfg
  cfg = fdl.Config(fn)
  for i, v in enumerate(model.prefix):
    if v is not M.UNSET:
      cfg[i] = v
  if model.V:
    cfg[fdl.VARARGS:] = list(model.V)
  for n, v in model.K.items():
    setattr(cfg, n, v)
  return cfg


def run_spellings(res):
  """The same function configured under several spellings in one process
  (plain function taken from the class, method bound to an instance,
  classmethod bound to the class and its underlying function), in every
  order: each Buildable reports the parameters of the object it was given
  (reference: inspect.signature of that very object) and positional edits
  address them."""
  import inspect  # pylint: disable=g-import-not-at-top
  import itertools  # pylint: disable=g-import-not-at-top

  def fresh():
    class K:

      def m(self, a, b='db', *rest):
        return vfx.rec('K.m', locals())

      @classmethod
      def cm(cls, a, b='db', *rest):
        return vfx.rec('K.cm', {'a': a, 'b': b, 'rest': rest})

    obj = K()
    return {'plain': K.m, 'bound': obj.m, 'classmethod': K.cm,
            'classmethod-func': K.__dict__['cm'].__func__,
            'bound2': K().m}, obj

  names = ['plain', 'bound', 'classmethod', 'classmethod-func', 'bound2']
  for order in itertools.permutations(names, 3):
    spellings, obj = fresh()
    res.states += 1
    res.nontrivial += 1
    for name in order:
      fn = spellings[name]
      case = {'spellings': list(order), 'at': name}
      want = list(inspect.signature(fn).parameters)
      res.transitions += 1
      res.evals += 1
      try:
        cfg = fdl.Config(fn)
        got = list(cfg.__signature_info__.signature.parameters)
        if got != want:
          res.violation('C03/spellings/reported-parameters',
                        f'{case}: Config reports {got}, the callable has '
                        f'{want}', case)
          break
        npos = len(want) - 1      # everything but *rest
        vals = [obj if p in ('self', 'cls') else f'V{i}'
                for i, p in enumerate(want[:npos])]
        for i, v in enumerate(vals):
          cfg[i] = v
        cfg[fdl.VARARGS:] = ['R0']
        if list(cfg[:]) != vals + ['R0']:
          res.violation('C03/spellings/positional-view',
                        f'{case}: cfg[:] = {cfg[:]!r} expected '
                        f'{vals + ["R0"]!r}', case)
          break
        vfx.reset()
        built = canon.canon_built(fdl.build(cfg))
        vfx.reset()
        direct = canon.canon_built(fn(*vals, 'R0'))
        if built != direct:
          res.violation('C03/spellings/build-differs-from-call',
                        f'{case}: {built} vs {direct}', case)
          break
        for bad_name in ('self', 'cls'):
          if bad_name not in want:
            try:
              setattr(cfg, bad_name, 1)
              res.violation('C03/spellings/unknown-name-accepted',
                            f'{case}: cfg.{bad_name} = 1 accepted', case)
            except (AttributeError, TypeError):
              pass
      except Exception as e:  # pylint: disable=broad-except
        res.violation(f'C03/spellings/raises/{type(e).__name__}',
                      f'{case}: {e}', case)
        break
    res.outcomes['spellings'] += 1


def run_unit(unit, tier, seed):
  if unit[0] == 'spellings':
    res = core.Result()
    run_spellings(res)
    res.sample({'spellings': 'plain / bound / classmethod, every order of 3'})
    return res
  phase, sig, vcap = unit
  sig = tuple(sig[:4]) + (tuple(sig[4]), sig[5])
  b = dict(bounds(tier), vcap=vcap)
  if seed % 2:
    b['values'] = list(reversed(b['values']))
  res = core.Result()
  n = explore(sig, phase, b, res)
  res.evals = res.transitions
  res.nontrivial = res.states
  res.sample({'signature': S.param_src(sig), 'phase': phase, 'states': n})
  return res


def replay(case):
  res = core.Result()
  if 'spellings' in case:
    run_spellings(res)
    res.violations = [v for v in res.violations if v['case'] == case]
    for v in res.violations:
      print(v['what'])
    return res
  sig = case['sig']
  sig = tuple(sig[:4]) + (tuple(sig[4]), sig[5])
  init = tuple(tuple(x) for x in case['init'])
  hist = [tuple(o) if not isinstance(o, tuple) else o for o in case['hist']]
  model = M.Model(sig)
  for k, v in init:
    model.K[k] = v
  cfg = materialize(sig, init, hist)
  for op in hist:
    st, _, nm = model.apply(tuple(op), NO_VALUE)
    if st in ('ok',):
      model = nm
  print('signature:', S.param_src(sig))
  print('history  :', list(init), hist)
  print('model state:', model.key())
  print('real cfg[:]:', _safe(lambda: cfg[:]), ' args:',
        _safe(lambda: dict(fdl.ordered_arguments(cfg))))
  op = case.get('op')
  if op is None:
    bad = observe(cfg, model, full=True)
    for b_ in bad:
      res.violation('C03/state-observables', f'{b_}', case)
    c1 = canon.canon_cfg(cfg)
    c2 = canon.canon_cfg(canonical_build(sig, model))
    if c1 != c2:
      res.violation('C03/differential-construction', f'{c1} vs {c2}', case)
    return res
  op = tuple(op)
  st, val, nm = model.apply(op, NO_VALUE)
  rst, rval = real_apply(cfg, op)
  print('op:', op, ' model:', st, val, nm.key(), ' real:', rst, repr(rval))
  print('real cfg[:] after:', _safe(lambda: cfg[:]), ' args:',
        _safe(lambda: dict(fdl.ordered_arguments(cfg))))
  post = model if rst == 'raise' else nm
  if st == 'raise':
    post = model
  if st not in ('either', rst):
    res.violation('C03/outcome', f'model {st} real {rst} {rval!r}', case)
  elif st == 'ok' and op[0] in ('get', 'geti', 'gets') and rval != val:
    res.violation('C03/read', f'real {rval!r} model {val!r}', case)
  else:
    for b_ in observe(cfg, post, full=True):
      res.violation('C03/post-state', f'{b_}', case)
  return res


def _safe(f):
  try:
    return f()
  except Exception as e:  # pylint: disable=broad-except
    return f'<raised {type(e).__name__}: {e}>'

TECHNIQUE = ('explicit-state model checking: BFS over the real Buildable '
             'edit operations against a list+dict reference model')
LEVEL_TEXT = ('Every reachable reference-model state of every signature in '
              'the bounded alphabet is visited; in each state every operation '
              'of the (deduplicated) complete alphabet is executed on a real '
              'fdl.Config and compared with the model (outcome, returned '
              'value, all public observables, state after rejected edits). '
              'Exhaustive within the stated bounds, not a sample.')
LEVEL_NOTE = ('Trusted: the reference model mc/argmodel.py (CPython list '
              'semantics + dict), the slice de-duplication argument (CPython '
              'slice.indices normal form x raw spelling class), bounds: <=2 '
              'params of a kind (<=1 positional-only / keyword-only), *args length '
              '<= 2 (quick; 3 on the smallest prefixes) / 3 (thorough), two '
              'values.')
