"""C04: built Partial is functools.partial; ArgFactory arguments fresh per call."""
from __future__ import annotations

import collections
import functools
import itertools

import fiddle as fdl
from mc import canon
from mc import core
import vfx
from vfx import nodes as N

PROP = 'C04'
LEVEL = 'model_checking'
TECHNIQUE = ('bounded-exhaustive enumeration of Partial/ArgFactory/Config/'
             'container nestings x every call sequence up to a depth, real '
             'built callable vs a hand-written functools.partial reference')
RULE = ('argument values from the grammar V ::= leaf | Config(V) | '
        'ArgFactory(V) | Partial(V) | [V] | [V, leaf] | (V,) | {k: V} up to a '
        'nesting depth (ArgFactory never below a Config), placed in the '
        'arguments of a Partial over keyword and positional/*args signatures, '
        'plus aliasing variants; then every sequence of calls up to a length '
        'over {no args, override x, override y, supply missing, extra '
        'positional}; containers also named tuples, classes derived from them '
        'and defaultdicts; form po3 = positional-only defaults below *args '
        'with call-time positional arguments; non-trivial = contains an '
        'ArgFactory or a Config')
ASSUMPTIONS = [
    'identity of two outputs of the *same* ArgFactory instance within one '
    'call is not judged (the statement is silent); results are compared as '
    'trees and identity is compared across calls only',
    'whether an overridden ArgFactory is still evaluated is not judged',
    'ArgFactory directly or indirectly below a Config (without a Partial or '
    'ArgFactory in between) is out of domain (documented as unsupported)',
]
LEVEL_TEXT = ('Every nesting up to the depth bound is built by the real '
              'fdl.build and called with every call sequence; results and '
              'cross-call object identities are compared with the reference.')
LEVEL_NOTE = ('Trusted: the reference evaluator in this file, vfx recording '
              'callables. Bounds: depth 2 in two slots + depth 3 in one slot, '
              'call sequences <= 2 (quick) / 3 for values of depth <= 2 '
              '(thorough).')


def bounds(tier):
  if tier == 'quick':
    return dict(depth2=2, depth1=3, calls=2)
  return dict(depth2=2, depth1=3, calls=3)


# ----------------------------------------------------------- value grammar
# A value spec is a nested tuple: ('leaf', s) | ('cfg', V) | ('af', V) |
# ('par', V) | ('list1', V) | ('list2', V) | ('tuple', V) | ('dict', V)
KINDS = ('cfg', 'af', 'par', 'list1', 'list2', 'tuple', 'dict',
         'afp', 'afv', 'parp', 'aflaky')   # ...p: positional-only arg, ...v: via *args


EXTRA_KINDS = ('nt', 'ntsub', 'ddict')


def gen(depth, af_ok=True, kinds=KINDS):
  yield ('leaf', 'L')
  if depth == 0:
    return
  for k in kinds:
    if k in ('af', 'afp', 'afv', 'aflaky') and not af_ok:
      continue
    child_af_ok = af_ok
    if k == 'cfg':
      child_af_ok = False
    if k in ('af', 'par', 'afp', 'afv', 'parp', 'aflaky'):
      child_af_ok = True
    for v in gen(depth - 1, child_af_ok, kinds):
      yield (k, v)


def _depth(spec):
  return 0 if spec[0] == 'leaf' else 1 + _depth(spec[1])


def contains(spec, kind):
  return spec[0].startswith(kind) or (
      spec[0] != 'leaf' and contains(spec[1], kind))


def materialize(spec, leafval='L'):
  k = spec[0]
  if k == 'leaf':
    return leafval
  v = materialize(spec[1], leafval)
  if k == 'cfg':
    return fdl.Config(N.node, x=v)
  if k == 'af':
    return fdl.ArgFactory(N.node_b, x=v)
  if k == 'par':
    return fdl.Partial(N.node_nd, y=v)
  if k == 'aflaky':
    return fdl.ArgFactory(N.flaky, x=v)
  if k == 'afp':
    return fdl.ArgFactory(N.node_pos, v)
  if k == 'afv':
    return fdl.ArgFactory(N.node_pos, 'p', 'a', v, 'w')
  if k == 'parp':
    return fdl.Partial(N.node_pos, v)
  if k == 'list1':
    return [v]
  if k == 'list2':
    return [v, 'leaf2']
  if k == 'tuple':
    return (v,)
  if k == 'dict':
    return {'k': v}
  if k == 'nt':
    return N.Pair(v, 'second')
  if k == 'ntsub':
    return N.PairSub('first', v)
  if k == 'ddict':
    return collections.defaultdict(list, {'k': v})
  raise ValueError(spec)


# ----------------------------------------------------------- reference
class RefFactory:

  def __init__(self, fn, args, kwargs):
    self.fn, self.args, self.kwargs = fn, args, kwargs

  def __call__(self):
    return self.fn(*[instantiate(a) for a in self.args],
                   **{k: instantiate(v) for k, v in self.kwargs.items()})


def has_factory(v, memo=None):
  if isinstance(v, RefFactory):
    return True
  if isinstance(v, (list, tuple)):
    return any(has_factory(x) for x in v)
  if isinstance(v, dict):
    return any(has_factory(x) for x in v.values())
  return False


def instantiate(v):
  """Call-time evaluation: factories invoked, containers holding them copied,
  everything else passed through uncopied."""
  if isinstance(v, RefFactory):
    return v()
  if not has_factory(v):
    return v
  if canon.is_namedtuple(v):
    return type(v)(*[instantiate(x) for x in v])
  if isinstance(v, (list, tuple)):
    return type(v)(instantiate(x) for x in v)
  if isinstance(v, collections.defaultdict):
    return collections.defaultdict(
        v.default_factory, {k: instantiate(x) for k, x in v.items()})
  if isinstance(v, dict):
    return {k: instantiate(x) for k, x in v.items()}
  raise AssertionError(v)


class RefPartial:

  def __init__(self, fn, args, kwargs):
    self.fn, self.args, self.kwargs = fn, args, kwargs

  def __call__(self, *cargs, **ckw):
    kw = {k: v for k, v in self.kwargs.items() if k not in ckw}
    return self.fn(*[instantiate(a) for a in self.args], *cargs,
                   **{k: instantiate(v) for k, v in kw.items()}, **ckw)


def split_args(b):
  """(positional list, keyword dict) of a Buildable as Python requires."""
  args = b.__arguments__
  params = list(b.__signature_info__.signature.parameters.values())
  pos = []
  kw = {}
  var_idx = None
  for idx, p in enumerate(params):
    if p.kind == p.VAR_POSITIONAL:
      var_idx = idx
  has_va = var_idx is not None and var_idx in args
  for idx, p in enumerate(params):
    if p.kind == p.POSITIONAL_ONLY:
      if idx in args:
        pos.append(args[idx])
    elif p.kind == p.POSITIONAL_OR_KEYWORD:
      if p.name in args:
        if has_va:
          pos.append(args[p.name])
        else:
          kw[p.name] = args[p.name]
      elif has_va:
        # unset slot below *args: its own default applies, passed by position
        assert p.default is not p.empty
        pos.append(p.default)
    elif p.kind == p.VAR_POSITIONAL:
      i = idx
      while i in args:
        pos.append(args[i])
        i += 1
  for k, v in args.items():
    if isinstance(k, str) and k not in kw and not (
        k in b.__signature_info__.signature.parameters and has_va and
        b.__signature_info__.signature.parameters[k].kind ==
        b.__signature_info__.signature.parameters[k].POSITIONAL_OR_KEYWORD):
      kw[k] = v
  return pos, kw


def ref_build(x, memo):
  i = id(x)
  if i in memo:
    return memo[i][1]
  if isinstance(x, fdl.Buildable):
    pos, kw = split_args(x)
    pos = [ref_build(v, memo) for v in pos]
    kw = {k: ref_build(v, memo) for k, v in kw.items()}
    fn = x.__fn_or_cls__
    if isinstance(x, fdl.Partial):
      out = RefPartial(fn, pos, kw)
    elif isinstance(x, fdl.ArgFactory):
      out = RefFactory(fn, pos, kw)
    else:
      out = fn(*pos, **kw)
  elif type(x) is list:
    out = [ref_build(v, memo) for v in x]
  elif type(x) is tuple:
    out = tuple(ref_build(v, memo) for v in x)
  elif type(x) is dict:
    out = {k: ref_build(v, memo) for k, v in x.items()}
  elif canon.is_namedtuple(x):
    out = type(x)(*[ref_build(v, memo) for v in x])
  elif type(x) is collections.defaultdict:
    out = collections.defaultdict(
        x.default_factory, {k: ref_build(v, memo) for k, v in x.items()})
  else:
    return x
  memo[i] = (x, out)
  return out


# ----------------------------------------------------------- comparison
def normalize(v, depth=0):
  """Tree form of a result; partial objects (real or reference) are probed by
  calling them with a fixed argument so behaviour, not wrapping, is compared."""
  if isinstance(v, (functools.partial, RefPartial)):
    try:
      r = v(x='probe')
      return ('callable->', normalize(r, depth + 1))
    except Exception as e:  # pylint: disable=broad-except
      return ('callable-raises', type(e).__name__)
  if isinstance(v, vfx.Rec):
    return ('Rec', v.fn_key, tuple(
        (k, normalize(x, depth)) for k, x in sorted(v.bound.items())))
  if isinstance(v, list):
    return ('list', tuple(normalize(x, depth) for x in v))
  if isinstance(v, tuple):
    return (type(v).__name__, tuple(normalize(x, depth) for x in v))
  if isinstance(v, dict):
    return (type(v).__name__,
            tuple((k, normalize(x, depth)) for k, x in v.items()))
  return ('leaf', type(v).__name__, repr(v))


def objects_by_path(v, path=(), out=None):
  """path -> object for Rec / list / dict / tuple / partial nodes."""
  out = {} if out is None else out
  if isinstance(v, vfx.Rec):
    out[path] = v
    for k, x in v.bound.items():
      objects_by_path(x, path + (k,), out)
  elif isinstance(v, (list, tuple)):
    if v != ():
      out[path] = v
    for i, x in enumerate(v):
      objects_by_path(x, path + (i,), out)
  elif isinstance(v, dict):
    out[path] = v
    for k, x in v.items():
      objects_by_path(x, path + (('k', k),), out)
  elif isinstance(v, (functools.partial, RefPartial)):
    out[path] = v
  return out


CALLS = {
    'kw': [('noargs', (), {}), ('noargs_failing', (), {}),
           ('override_x', (), {'x': 'ox'}),
           ('override_y', (), {'y': 'oy'}), ('extra_pos', ('pos',), {})],
    'pos': [('noargs', (), {}), ('noargs_failing', (), {}),
            ('override_k', (), {'k': 'ok'}),
            ('override_a', (), {'a': 'oa'}), ('extra_pos', ('pos',), {})],
    'po3': [('noargs', (), {}), ('extra_pos', ('pos',), {}),
            ('extra_pos2', ('p1', 'p2'), {}), ('extra_pos3', ('p1', 'p2', 'p3'),
                                              {}),
            ('override_k', (), {'k': 'ok'})],
    'nd': [('noargs', (), {}), ('supply_x', (), {'x': 'sx'}),
           ('override_y', (), {'y': 'oy'}), ('extra_pos', ('pos',), {})],
}


def make_root(form, s1, s2):
  v1 = materialize(s1, 'L')
  v2 = materialize(s2, 'M') if s2 != 'same' else v1
  if form == 'kw':
    return fdl.Partial(N.node, x=v1, y=v2)
  if form == 'nd':
    # x required and unset: supplied at call time
    return fdl.Partial(N.node_nd, y=[v1, v2])
  if form == 'po3':
    # a prefix of the positional-only parameters set, no *args values
    return fdl.Partial(N.node_po3, v1, k=v2)
  p = fdl.Partial(N.node_pos)
  p[0] = v1
  p[fdl.VARARGS:] = [v2]
  p.k = [v1] if s2 == 'same' else 'kk'
  return p


def check_case(form, s1, s2, ncalls, res, case):
  root = make_root(form, s1, s2)
  vfx.reset()
  try:
    real = fdl.build(root)
  except Exception as e:  # pylint: disable=broad-except
    res.violation(f'C04/build-raises/{form}',
                  f'{case}: {type(e).__name__}: {e}', case)
    return
  real_build_log = [k for _, k, _ in vfx.LOG]
  real_build_serial = len(vfx.LOG)
  res.transitions += 1
  # reference (separate LOG epoch)
  keep = list(vfx.LOG)
  vfx.reset()
  ref = ref_build(root, {})
  ref_build_log = [k for _, k, _ in vfx.LOG]
  if sorted(real_build_log) != sorted(ref_build_log):
    res.violation(
        f'C04/build-time-invocations/{form}',
        f'{case}: build invoked {real_build_log}, reference {ref_build_log} '
        f'(Configs are built once at build time, factories never)', case)
    return
  if not isinstance(real, functools.partial):
    res.violation(f'C04/not-a-functools-partial/{form}',
                  f'{case}: build returned {type(real).__name__}', case)
    return
  calls = CALLS[form]
  for seq in itertools.product(range(len(calls)), repeat=ncalls):
    # every call sequence starts from a freshly built callable (the built
    # callable may carry state from earlier calls)
    root_s = make_root(form, s1, s2)
    vfx.reset()
    N.FLAKY['fail'] = False
    real = fdl.build(root_s)
    vfx.reset()
    ref = ref_build(root_s, {})
    real_results = []
    ref_results = []
    for ci in seq:
      name, cargs, ckw = calls[ci]
      # in a "failing" call every flaky factory raises
      N.FLAKY['fail'] = name.endswith('_failing')
      try:
        r = ('ok', real(*cargs, **ckw))
      except Exception as e:  # pylint: disable=broad-except
        r = ('raise', type(e).__name__)
      try:
        f = ('ok', ref(*cargs, **ckw))
      except Exception as e:  # pylint: disable=broad-except
        f = ('raise', type(e).__name__)
      N.FLAKY['fail'] = False
      res.transitions += 1
      if r[0] != f[0] or (r[0] == 'raise' and r[1] != f[1]):
        res.violation(
            f'C04/call-outcome/{form}/{name}',
            f'{case} call {name} (sequence {[calls[i][0] for i in seq]}): '
            f'real {r[0]} {r[1]!r}, reference {f[0]} {f[1]!r}', case)
        return
      if r[0] == 'ok':
        nr, nf = normalize(r[1]), normalize(f[1])
        if nr != nf:
          res.violation(
              f'C04/call-result/{form}/{name}',
              f'{case} call {name} (sequence {[calls[i][0] for i in seq]}): '
              f'real {r[1]!r} reference {f[1]!r}', case)
          return
      real_results.append(r)
      ref_results.append(f)
    # identity relations across calls
    for i in range(len(seq)):
      for j in range(i + 1, len(seq)):
        if real_results[i][0] != 'ok' or real_results[j][0] != 'ok':
          continue
        ro_i = objects_by_path(real_results[i][1])
        ro_j = objects_by_path(real_results[j][1])
        fo_i = objects_by_path(ref_results[i][1])
        fo_j = objects_by_path(ref_results[j][1])
        for path in fo_i:
          if path in fo_j and path in ro_i and path in ro_j:
            ref_same = fo_i[path] is fo_j[path]
            real_same = ro_i[path] is ro_j[path]
            if ref_same != real_same:
              kind = type(ro_i[path]).__name__
              what = ('rebuilt on each call although no ArgFactory is '
                      'involved' if ref_same else
                      'shared between calls although an ArgFactory must '
                      'produce it afresh')
              res.violation(
                  f'C04/identity-across-calls/{form}/'
                  f'{"should-be-same" if ref_same else "should-be-fresh"}/'
                  f'{kind}',
                  f'{case}: calls {calls[seq[i]][0]},{calls[seq[j]][0]} at '
                  f'result path {path}: {kind} {what}', case)
              return
  res.outcomes[f'{form}:af={contains(s1, "af")}:cfg={contains(s1, "cfg")}'] += 1


def all_cases(b):
  d2 = list(gen(b['depth2']))
  d3 = list(gen(b['depth1']))
  for form in ('kw', 'pos', 'nd'):
    for s1 in d2:
      for s2 in d2:
        yield form, s1, s2
      if s1[0] != 'leaf':
        yield form, s1, 'same'
  for form in ('kw', 'pos'):
    for s1 in d3:
      for s2 in (('leaf', 'L'), ('af', ('leaf', 'L'))):
        yield form, s1, s2
  for s1 in d2:
    for s2 in (('leaf', 'L'), ('af', ('leaf', 'L')), 'same'):
      yield 'po3', s1, s2
  # named tuples, classes derived from them and defaultdicts as containers
  seen = set(d2)
  for form in ('kw', 'pos'):
    for s1 in gen(2, True, KINDS + EXTRA_KINDS):
      if s1 not in seen and any(contains(s1, k) for k in EXTRA_KINDS):
        for s2 in (('leaf', 'L'), ('af', ('leaf', 'L')), 'same'):
          yield form, s1, s2


NCHUNK = 48


def units(tier, seed):
  return list(range(NCHUNK))


def run_unit(unit, tier, seed):
  b = bounds(tier)
  res = core.Result()
  for idx, (form, s1, s2) in enumerate(all_cases(b)):
    if idx % NCHUNK != unit:
      continue
    res.states += 1
    res.evals += 1
    if contains(s1, 'af') or contains(s1, 'cfg') or (
        s2 != 'same' and (contains(s2, 'af') or contains(s2, 'cfg'))):
      res.nontrivial += 1
    case = {'form': form, 's1': s1, 's2': s2}
    shallow = _depth(s1) <= 2 and (s2 == 'same' or _depth(s2) <= 2)
    check_case(form, s1, s2, b['calls'] if shallow else min(b['calls'], 2),
               res, case)
    if idx % 4001 == 0:
      res.sample({'form': form, 'x': s1, 'y': s2,
                  'config': repr(make_root(form, s1, s2))[:200]})
  return res


def _t(x):
  return tuple(_t(i) for i in x) if isinstance(x, list) else x


def replay(case):
  res = core.Result()
  s1, s2 = _t(case['s1']), _t(case['s2'])
  root = make_root(case['form'], s1, s2)
  print('config:', root)
  check_case(case['form'], s1, s2, 3, res, case)
  return res
