"""C05: a failing callable surfaces faithfully and leaves no residue."""
from __future__ import annotations

import builtins
import errno
import itertools
import re

import fiddle as fdl
from mc import canon
from mc import core
from mc import shapes
import vfx
from vfx import nodes as N

PROP = 'C05'
LEVEL = 'fault_enumeration'
TECHNIQUE = ('exhaustive fault enumeration: every node of every DAG shape as '
             'the failing node x every exception-class shape x diagnostic '
             'variants, plus every bounded sequence of failing / succeeding / '
             'nested builds')
RULE = ('(DAG shape up to N nodes) x (every Buildable node as the failing '
        'node) x (exception shapes: plain, custom __init__ signatures, '
        '__str__ override, __slots__, KeyError, OSError/errno, BaseException '
        'subclasses, unsubclassable class, StopIteration, every builtin '
        'exception class) x (argument with failing repr: Exception / '
        'BaseException; callable without __qualname__; failing callable that '
        'first modifies the empty / non-empty / shared containers it received); '
        'events incl. a swallowed auto_unconfig failure followed by a nested '
        'build; sequences of events up '
        'to a length on one thread; a case is distinct by (shape, node, '
        'exception shape, variant) and non-trivial when the failing node has '
        'a dependency or a dependant')
ASSUMPTIONS = [
    'the diagnostic names the path as "<root>" followed by the daglish path '
    'syntax (.name, [i], [\'key\']); this token is required only when the '
    'exception class can be proxied (an Exception subclass that admits '
    'subclassing) and the diagnostic can be formatted; otherwise Fiddle '
    'falls back to the original exception, which is accepted',
    'any exception from a nested fdl.build is accepted as "rejected"',
]
LEVEL_TEXT = ('Every crash point (node) of every bounded DAG is exercised with '
              'every exception shape; exception class, message prefix, path, '
              'invocation log, config immutability and health of the next '
              'build are checked after each; event sequences up to length 3 '
              'are enumerated completely.')
LEVEL_NOTE = ('Trusted: vfx.failer, the path parser in this file, canon. '
              'Bounds: N<=3 (quick) / 4 (thorough) nodes, sequences <=3.')


# ------------------------------------------------------------ exception shapes
class EPlain(Exception):
  pass


class ETwoArgs(Exception):

  def __init__(self, a, b):
    super().__init__(f'{a}-{b}')
    self.a, self.b = a, b


class EKwOnly(Exception):

  def __init__(self, *, code):
    super().__init__(f'code {code}')
    self.code = code


class EStr(Exception):

  def __str__(self):
    return 'custom str'


class ESlots(Exception):
  __slots__ = ('v',)

  def __init__(self, v):
    super().__init__(v)
    self.v = v


class EKey(KeyError):
  pass


class EBase(BaseException):
  pass


class ENoSubclass(Exception):

  def __init_subclass__(cls, **kw):
    raise TypeError('this exception class cannot be subclassed')


class EStrictNew(Exception):
  """__new__ accepts exactly one int."""

  def __new__(cls, code):
    if not isinstance(code, int):
      raise TypeError('code must be an int')
    return super().__new__(cls, code)

  def __init__(self, code):
    super().__init__(f'strict {code}')


class EImmutable(Exception):
  """Instances reject attribute assignment."""

  def __setattr__(self, name, value):
    raise AttributeError('immutable exception')


class ENoArgs(Exception):

  def __init__(self):
    super().__init__('fixed message')


def _dup(tag):
  class Dup(Exception):
    pass
  Dup.tag = tag
  Dup.__qualname__ = 'Dup'
  return Dup


EDupA = _dup('A')
EDupB = _dup('B')

SHAPES = {
    'plain': lambda: EPlain('boom'),
    'two_args': lambda: ETwoArgs('a', 'b'),
    'kw_only': lambda: EKwOnly(code=7),
    'str_override': lambda: EStr('ignored'),
    'slots': lambda: ESlots('sv'),
    'keyerror': lambda: EKey('missing-key'),
    'oserror_errno': lambda: OSError(errno.ENOENT, 'no such file'),
    'base_exception': lambda: EBase('base'),
    'keyboard_interrupt': lambda: KeyboardInterrupt('ki'),
    'system_exit': lambda: SystemExit(3),
    'generator_exit': lambda: GeneratorExit('ge'),
    'no_subclass': lambda: ENoSubclass('nosub'),
    'no_args_init': ENoArgs,
    'strict_new': lambda: EStrictNew(7),
    'immutable': lambda: EImmutable('imm'),
    'stop_iteration': lambda: StopIteration('stop'),
    'dup_a': lambda: EDupA('dup a'),
    'dup_b': lambda: EDupB('dup b'),
    'empty_message': lambda: EPlain(),
    'multiline': lambda: EPlain('line1\nline2 <root>.fake'),
}


def builtin_shapes():
  out = {}
  for name in sorted(dir(builtins)):
    obj = getattr(builtins, name)
    if isinstance(obj, type) and issubclass(obj, BaseException):
      try:
        obj('msg')
      except Exception:  # pylint: disable=broad-except
        continue
      out['builtin:' + name] = (lambda o=obj: o('msg'))
  return out


ALL_SHAPES = dict(SHAPES)
ALL_SHAPES.update(builtin_shapes())
QUICK_SHAPES = list(SHAPES)


def bounds(tier):
  if tier == 'quick':
    return dict(menu=['cfg', 'par1', 'list2', 'dict1', 'tuple1'], n=3,
                shapes=QUICK_SHAPES, builtin_n=2, seq=3)
  return dict(menu=['cfg', 'par1', 'list2', 'dict1', 'tuple1', 'nt'], n=3,
              shapes=QUICK_SHAPES, builtin_n=3, seq=3, n_big=4,
              big_shapes=['plain', 'base_exception', 'no_subclass',
                          'keyerror'])


NCHUNK = 32


def units(tier, seed):
  b = bounds(tier)
  out = [('faults', 'main', k) for k in range(NCHUNK)]
  out += [('faults', 'builtins', k) for k in range(8)]
  if 'n_big' in b:
    out += [('faults', 'big', k) for k in range(NCHUNK)]
  out += [('seq', d) for d in range(1, b['seq'] + 1)]
  out.append(('variants',))
  return out


# ------------------------------------------------------------ helpers
def render_paths(root, target):
  """All daglish-syntax renderings of paths from root to `target`."""
  out = []

  def walk(v, text, stack):
    if v is target:
      out.append(text)
    ch = canon.children(v)
    if ch is None or id(v) in stack:
      return
    stack.add(id(v))
    for (kind, k), c in ch:
      if kind == 'attr':
        t = f'.{k}'
      elif kind == 'index':
        t = f'[{k}]'
      else:
        t = f'[{k!r}]'
      walk(c, text + t, stack)
    stack.discard(id(v))

  walk(root, '', set())
  return out


def root_token(message):
  """The text after the *last* '<root>' up to whitespace (the diagnostic is
  appended after the original message)."""
  i = message.rfind('<root>')
  if i < 0:
    return None
  m = re.search(r'<root>(\S*)', message[i:])
  return m.group(1) if m else None


def healthy():
  return fdl.Config(N.node, x=fdl.Config(N.node_b, x=1), y=[2])


def check_healthy(res, case, after):
  vfx.reset()
  try:
    r = fdl.build(healthy())
  except Exception as e:  # pylint: disable=broad-except
    res.violation(f'C05/next-build-broken/after-{after}',
                  f'{case}: the next fdl.build in this thread raised '
                  f'{type(e).__name__}: {e}', case)
    return False
  ok = (isinstance(r, vfx.Rec) and r.fn_key == 'node' and
        isinstance(r.bound['x'], vfx.Rec) and r.bound['x'].bound['x'] == 1
        and r.bound['y'] == [2])
  if not ok:
    res.violation(f'C05/next-build-wrong/after-{after}', f'{case}: {r!r}',
                  case)
  return ok


def diagnosable(exc):
  return isinstance(exc, Exception) and not isinstance(exc, ENoSubclass)


def run_fault(root, failing, shape_name, res, case, variant='plain'):
  """Builds `root`, in which `failing` is a Config over a failing callable."""
  made = []

  def make():
    e = ALL_SHAPES[shape_name]()
    made.append(e)
    return e

  before = canon.canon_cfg(root)
  vfx.reset()
  vfx.FAIL['exc'] = make
  if variant.startswith('mutating'):
    vfx.FAIL['mutate'] = True
  escaped = None
  try:
    fdl.build(root)
  except BaseException as e:  # pylint: disable=broad-except
    escaped = e
  LAST_ESCAPED[0] = escaped
  log = [(k, r) for _, k, r in vfx.LOG]
  res.transitions += 1
  label = shape_name.split(':')[0]
  if escaped is None:
    res.violation(f'C05/failure-swallowed/{label}',
                  f'{case}: build returned normally', case)
    return
  if not made:
    res.violation(f'C05/failing-node-never-invoked/{label}',
                  f'{case}: escaped {escaped!r}', case)
    return
  original = made[0]
  res.outcomes[f'{label}:{variant}:{type(escaped).__name__ == type(original).__name__}'] += 1
  # (a) class
  if not isinstance(escaped, type(original)):
    res.violation(
        f'C05/escaped-class/{label}',
        f'{case}: original {type(original).__mro__[:2]} escaped as '
        f'{type(escaped).__name__}: {escaped!r}', case)
    return
  # (b) message prefix
  try:
    s_orig, s_esc = str(original), str(escaped)
  except Exception as e:  # pylint: disable=broad-except
    res.violation(f'C05/str-raises/{label}', f'{case}: {e!r}', case)
    return
  if not s_esc.startswith(s_orig):
    res.violation(f'C05/message-prefix/{label}',
                  f'{case}: original message {s_orig!r} escaped {s_esc!r}',
                  case)
    return
  # (c) path
  tok = root_token(s_esc[len(s_orig):])
  candidates = render_paths(root, failing)
  must = diagnosable(original) and variant in (
      'plain', 'bad_repr_exception', 'no_qualname', 'reraised',
      'mutating_empty', 'mutating_nonempty', 'mutating_shared') and shape_name not in (
          'strict_new', 'immutable')
  if tok is None and must and any(
      c and c in s_esc[len(s_orig):] for c in candidates):
    pass      # the path is named, in another notation than <root>...
  elif tok is None:
    if must:
      res.violation(
          f'C05/no-path-in-diagnostic/{label}/{variant}',
          f'{case}: message {s_esc!r} names no <root> path', case)
      return
  elif tok not in candidates:
    res.violation(
        f'C05/wrong-path/{label}',
        f'{case}: diagnostic names <root>{tok} but the failing node is at '
        f'{candidates}', case)
    return
  # (d) nothing invoked after the failing callable
  if not log or log[-1][0] not in ('failer', 'failer_instance'):
    res.violation(f'C05/invoked-after-failure/{label}',
                  f'{case}: log {[k for k, _ in log]}', case)
    return
  if sum(1 for k, _ in log if k in ('failer', 'failer_instance')) != 1:
    res.violation(f'C05/failing-node-invoked-twice/{label}',
                  f'{case}: log {[k for k, _ in log]}', case)
    return
  # (e) config unmodified
  after = canon.canon_cfg(root)
  if after != before:
    res.violation(f'C05/config-modified/{label}',
                  f'{case}: before {before} after {after}', case)
    return
  # (f) next build healthy
  check_healthy(res, case, f'{label}-{variant}')


def _kinds(menu):
  ks = shapes.std_kinds(menu)
  return ks, {k.name: k for k in ks}


def fault_cases(menu, n, nl=1):
  """(shape, failing node index) for every buildable node of every shape."""
  ks, byname = _kinds(menu)
  for shape in shapes.all_shapes(ks, n, nl):
    for j, (kind, _) in enumerate(shape):
      if kind == 'cfg':
        yield shape, j, byname


def materialize_with_failer(shape, j, byname, fn=None):
  fn = fn or N.failer
  objs = []
  for idx, (kind, slots) in enumerate(shape):
    vals = []
    for s in slots:
      if s == shapes.UNSET:
        vals.append(shapes.UNSET)
      elif s[0] == 'L':
        vals.append('L1')
      else:
        vals.append(objs[s[1]])
    if idx == j:
      kw = {n_: v for n_, v in zip(('x', 'y'), vals) if v is not shapes.UNSET}
      objs.append(fdl.Config(fn, **kw))
    else:
      objs.append(byname[kind].make(vals))
  return objs


def has_dep_or_dependant(shape, j):
  deps = any(isinstance(s, tuple) and s[0] == 'R' for s in shape[j][1])
  return deps or j != len(shape) - 1


# ------------------------------------------------------------ sequences
LAST_ESCAPED = [None]
EVENTS = ['fail_reraise_previous', 'fail_plain', 'fail_base', 'fail_nosub', 'fail_dup_a', 'fail_dup_b',
          'fail_badrepr_exc', 'fail_badrepr_base', 'ok', 'nested',
          'fail_stopiter', 'unconfig_swallow_nested']


def do_event(ev, res, case):
  if ev == 'ok':
    return check_healthy(res, case, 'ok')
  if ev == 'nested':
    vfx.reset()
    cfg = fdl.Config(N.node, x=fdl.Config(N.nested_builder, x=1))
    try:
      fdl.build(cfg)
    except Exception:  # pylint: disable=broad-except
      res.transitions += 1
      return check_healthy(res, case, 'nested')
    res.violation('C05/nested-build-accepted',
                  f'{case}: fdl.build from inside a callable under '
                  f'construction was not rejected', case)
    return False
  if ev == 'unconfig_swallow_nested':
    vfx.reset()
    cfg = fdl.Config(N.node, x=fdl.Config(N.unconfig_swallower, x=1),
                     y=fdl.Config(N.unconfig_swallower, x=2))
    try:
      out = fdl.build(cfg)
    except Exception as e:  # pylint: disable=broad-except
      res.violation('C05/swallowed-inner-failure-breaks-build',
                    f'{case}: {e!r}', case)
      return False
    res.transitions += 1
    for r in (out.bound['x'], out.bound['y']):
      if r.bound.get('nested') != 'rejected':
        res.violation(
            'C05/nested-build-accepted/after-swallowed-auto_unconfig-failure',
            f'{case}: {r.bound}', case)
        return False
    return check_healthy(res, case, 'unconfig_swallow_nested')
  if ev == 'fail_reraise_previous':
    prev = LAST_ESCAPED[0]
    if prev is None or not isinstance(prev, Exception):
      return True
    ALL_SHAPES['__previous__'] = lambda: prev
    # a different configuration: the earlier diagnostic's path is wrong here
    failing = fdl.Config(N.failer, x=2)
    root = {'other': [fdl.Config(N.node_b), failing]}
    n0 = len(res.violations)
    run_fault(root, failing, '__previous__', res, case, 'reraised')
    return len(res.violations) == n0
  shape = {'fail_plain': 'plain', 'fail_base': 'base_exception',
           'fail_nosub': 'no_subclass', 'fail_dup_a': 'dup_a',
           'fail_dup_b': 'dup_b', 'fail_badrepr_exc': 'plain',
           'fail_badrepr_base': 'plain', 'fail_stopiter': 'stop_iteration'}[ev]
  variant = 'plain'
  dep = fdl.Config(N.node_b, x=1)
  if ev == 'fail_badrepr_exc':
    dep = N.BadRepr(ValueError)
    variant = 'bad_repr_exception'
  elif ev == 'fail_badrepr_base':
    dep = N.BadRepr(EBase)
    variant = 'bad_repr_baseexception'
  failing = fdl.Config(N.failer, x=dep)
  root = fdl.Config(N.node, x=[failing], y=fdl.Config(N.node_b))
  n0 = len(res.violations)
  run_fault(root, failing, shape, res, case, variant)
  return len(res.violations) == n0


def run_unit(unit, tier, seed):
  b = bounds(tier)
  res = core.Result()
  if unit[0] == 'seq':
    d = unit[1]
    for seq in itertools.product(EVENTS, repeat=d):
      LAST_ESCAPED[0] = None
      res.states += 1
      res.evals += 1
      res.nontrivial += 1
      case = {'seq': list(seq)}
      for ev in seq:
        if not do_event(ev, res, case):
          break
    res.sample({'sequence': list(seq)})
    return res
  if unit[0] == 'variants':
    for shape_name in b['shapes']:
      for variant in ('bad_repr_exception', 'bad_repr_baseexception',
                      'no_qualname', 'tagged_unset', 'mutating_empty',
                      'mutating_nonempty', 'mutating_shared'):
        res.states += 1
        res.evals += 1
        res.nontrivial += 1
        case = {'variant': variant, 'exc': shape_name}
        root, failing = variant_root(variant)
        run_fault(root, failing, shape_name, res, case, variant)
    res.sample({'variants': 'bad repr / no qualname / tagged unset'})
    return res
  _, which, k = unit
  if which == 'main':
    cases = fault_cases(b['menu'], b['n'])
    names = b['shapes']
    nch = NCHUNK
  elif which == 'builtins':
    cases = fault_cases(['cfg', 'list2'], b['builtin_n'])
    names = [n for n in ALL_SHAPES if n.startswith('builtin:')]
    nch = 8
  else:
    cases = fault_cases(b['menu'], b['n_big'])
    names = b['big_shapes']
    nch = NCHUNK
  for idx, (shape, j, byname) in enumerate(cases):
    if idx % nch != k:
      continue
    res.states += 1
    if has_dep_or_dependant(shape, j):
      res.nontrivial += len(names)
    for shape_name in names:
      objs = materialize_with_failer(shape, j, byname)
      res.evals += 1
      case = {'shape': shape, 'node': j, 'exc': shape_name, 'which': which}
      run_fault(objs[-1], objs[j], shape_name, res, case)
    if idx % 701 == 0:
      res.sample({'shape': shape, 'failing_node': j,
                  'exception_shapes': len(names)})
  return res


def variant_root(variant):
  if variant == 'bad_repr_exception':
    failing = fdl.Config(N.failer, x=N.BadRepr(ValueError), y=1)
  elif variant == 'bad_repr_baseexception':
    failing = fdl.Config(N.failer, x=N.BadRepr(EBase), y=1)
  elif variant == 'no_qualname':
    failing = fdl.Config(N.failer_instance, x=1)
  elif variant == 'mutating_empty':
    failing = fdl.Config(N.failer, x=[], y={})
  elif variant == 'mutating_nonempty':
    failing = fdl.Config(N.failer, x=[1], y={'k': [2]})
  elif variant == 'mutating_shared':
    shared = []
    failing = fdl.Config(N.failer, x=shared, y=__import__(
        'collections').defaultdict(list))
    return {'k': [fdl.Config(N.node_b, x=shared), failing]}, failing
  else:
    failing = fdl.Config(N.failer, x=1)
    fdl.add_tag(failing, 'y', N.TagA)
  root = {'k': [fdl.Config(N.node_b, x=3), failing]}
  return root, failing


def replay(case):
  res = core.Result()
  if 'seq' in case:
    for ev in case['seq']:
      print('event', ev)
      if not do_event(ev, res, case):
        break
    return res
  if 'variant' in case:
    root, failing = variant_root(case['variant'])
    run_fault(root, failing, case['exc'], res, case, case['variant'])
    return res
  b = bounds('thorough')
  menu = ['cfg', 'list2'] if case['which'] == 'builtins' else b['menu']
  ks, byname = _kinds(menu)
  shape = tuple((k, tuple(tuple(s) if isinstance(s, list) else s
                          for s in sl)) for k, sl in case['shape'])
  objs = materialize_with_failer(shape, case['node'], byname)
  print('config:', objs[-1])
  vfx.FAIL['exc'] = ALL_SHAPES[case['exc']]
  try:
    fdl.build(objs[-1])
  except BaseException as e:  # pylint: disable=broad-except
    print('escaped:', type(e).__mro__[:3], repr(str(e))[:500])
  objs = materialize_with_failer(shape, case['node'], byname)
  run_fault(objs[-1], objs[case['node']], case['exc'], res, case)
  return res
