"""C06: == on Buildables is an equivalence relation congruent with build."""
from __future__ import annotations

import copy
import pickle

import fiddle as fdl
from fiddle.experimental import serialization
from mc import canon
from mc import core
from mc import shapes
import vfx
from vfx import nodes as N

PROP = 'C06'
LEVEL = 'model_checking'
TECHNIQUE = ('bounded-exhaustive enumeration of a closed family of '
             'configurations; == evaluated on ALL ordered pairs against an '
             'independent canonical-form equality, plus directed rewrites')
RULE = ('families of DAG shapes (Config/Partial over two callables with '
        'immutable defaults, positional arguments, lists, tuples, dicts in '
        'both insertion orders, dicts with keys of mixed types; leaves {1, the '
        'default value}; every sharing pattern); all ordered pairs inside a '
        'family; equality-preserving rewrites of every element (deepcopy, '
        'pickle, explicit defaults, different edit history, cleared history); '
        'a pair is non-trivial when the two shapes differ but the expected '
        'answer is "equal", or they differ only in sharing / one leaf')
ASSUMPTIONS = [
    'expected answer = equality of independent canonical forms (callable, '
    'Buildable type, arguments with defaults filled in, dict order ignored, '
    'sharing of Buildables/lists/dicts by first-visit numbering, history and '
    'tags ignored)',
    'pairs whose answer depends on the identity of a tuple (a tuple object '
    'holding mutable objects referenced twice vs two equal tuples) are not '
    'judged, only required not to raise and to be symmetric',
    'congruence compares builds ignoring tuple identity',
]
LEVEL_TEXT = ('== is evaluated on every ordered pair of a closed bounded '
              'family and must coincide with an independently computed '
              'equivalence relation (hence reflexive, symmetric, transitive), '
              'never raise, and imply structurally identical builds.')
LEVEL_NOTE = ('Trusted: mc.canon (independent walker). Bounds: families of '
              '~900 + ~300 (quick), ~4500 + ~2100 (thorough) configurations.')

ROOTS = ['eq', 'eqb', 'eqpar', 'eqpos', 'eqmd2', 'eqc2', 'eqc3']
FAMILIES = {
    'A': (['eq', 'eqb', 'eqpar', 'list2', 'tuple2', 'dict2', 'dict2r'], 2, 2),
    'M': (['eq', 'eqpos', 'list2', 'dictmix', 'dictmixr', 'dictenum',
           'dictenumr'], 2, 2),
    'D': (['eqmd2', 'eq', 'mlist'], 3, 1),
    # functions made by one factory (same code object); containers that are
    # named tuples or instances of a class derived from a named tuple
    'F': (['eqc2', 'eqc3', 'eq'], 2, 1),
    'N': (['eq', 'list1', 'ntsub'], 3, 1),
    'P': (['eq', 'list2', 'dictfs', 'dictfsr', 'dictcyc', 'dictcycr',
           'dictcycm'], 3, 1),
    'B': (['eq', 'eqb', 'eqpar', 'eqpos', 'list2', 'tuple1', 'dict2',
           'dict2r', 'dictmix', 'dictmixr', 'dictenum', 'dictenumr'], 2, 2),
    'C': (['eq', 'list2', 'dict1'], 3, 2),
    # three nodes: equal-but-distinct Buildables / lists vs shared ones
    'S3': (['eq', 'list2'], 3, 1),
    # nested constant tuples: the same object vs an equal distinct object
    'T': (['eq', 'list2'], 2, 4),
}
T1 = ((3, 3), 'same')
T2 = tuple([tuple([3, 3]), 'same'])     # equal to T1, a different object
assert T1 == T2 and T1 is not T2 and T1[0] is not T2[0]
LEAVES = [1, 'D', T1, T2]
NCHUNK = 32


def bounds(tier):
  fams = (['A', 'M', 'S3', 'T', 'P', 'D', 'F', 'N'] if tier == 'quick' else
          ['B', 'C', 'S3', 'T', 'P', 'D', 'F', 'N'])
  return {'families': {f: FAMILIES[f] for f in fams},
          'alias_menu': ['eq', 'eq3'], 'alias_nodes': 4}


def units(tier, seed):
  out = []
  for f in bounds(tier)['families']:
    for k in range(NCHUNK):
      out.append(('pairs', f, k))
    out.append(('rewrites', f))
  for k in range(NCHUNK):
    out.append(('alias', k))
  out.append(('registry',))
  out.append(('ntsharing',))
  return out


def family(name):
  menu, n, nl = FAMILIES[name]
  ks = shapes.std_kinds(menu)
  byname = {k.name: k for k in ks}
  shp = list(shapes.all_shapes(ks, n, nl, root_kinds=ROOTS))
  return shp, byname


def expected_key(cfg, tuple_identity):
  return canon.canon_cfg(cfg, fill_defaults=True, tags=False,
                         tuple_identity=tuple_identity)


def safe_eq(a, b):
  try:
    r = (a == b)
  except Exception as e:  # pylint: disable=broad-except
    return ('raise', f'{type(e).__name__}: {e}')
  try:
    n = (a != b)
  except Exception as e:  # pylint: disable=broad-except
    return ('raise', f'!= {type(e).__name__}: {e}')
  if not isinstance(r, bool) or n is not (not r):
    return ('raise', f'== gave {r!r}, != gave {n!r}')
  return ('ok', r)


def build_canon(cfg):
  vfx.reset()
  return canon.canon_built(fdl.build(cfg), normalize_partials=True)


def classify(sa, sb):
  ka = [k for k, _ in sa]
  kb = [k for k, _ in sb]
  if any(k.startswith(('dictmix', 'dictenum', 'dictfs', 'dictcyc'))
         for k in ka + kb):
    return 'mixed-key-dict'
  if any(k == 'eqpos' for k in ka + kb):
    return 'positional'
  return 'plain'


def run_registry_history(res):
  """A user container type that is compared while it is still unknown to
  daglish, then registered as a node type: later comparisons look inside it
  (sharing that passes through it is distinguished), exactly as when the
  type had been registered from the start."""
  from fiddle import daglish  # pylint: disable=g-import-not-at-top

  def scenario(compare_first, second_registry_use):
    class Box:
      def __init__(self, items):
        self.items = items
      def __eq__(self, other):
        return type(other) is type(self) and self.items == other.items
      __hash__ = None

    def pair():
      s = ['shared']
      a = fdl.Config(N.eqnode, x=Box([s]), y=s)
      s2 = ['shared']
      b = fdl.Config(N.eqnode, x=Box([['shared']]), y=s2)
      return a, b

    obs = []
    if compare_first:
      a, b = pair()
      obs.append(('before', safe_eq(a, b), safe_eq(b, a)))
      if second_registry_use:
        obs.append(('before-build', build_canon(a) == build_canon(b)))
    daglish.register_node_traverser(
        Box, flatten_fn=lambda b_: ((b_.items,), None),
        unflatten_fn=lambda vals, _: Box(vals[0]),
        path_elements_fn=lambda b_: (daglish.Attr('items'),))
    a, b = pair()
    obs.append(('after', safe_eq(a, b), safe_eq(b, a),
                build_canon(a) == build_canon(b)))
    return obs

  for compare_first in (False, True):
    for second in (False, True):
      res.states += 1
      res.nontrivial += 1
      res.transitions += 1
      obs = scenario(compare_first, second)
      case = {'registry_history': [compare_first, second]}
      after = obs[-1]
      res.outcomes[f'registry:{after[1:]}'] += 1
      # after registration the two configurations differ in sharing
      if after[1] != ('ok', False) or after[2] != ('ok', False):
        res.violation(
            'C06/different-configs-compare-equal/type-registered-after-'
            'first-comparison',
            f'{case}: observations {obs}: a shares a list through the '
            f'registered container, b does not; builds equal: {after[3]}',
            case)


def run_namedtuple_sharing(res):
  """Sharing that passes through a named tuple / an instance of a class
  derived from a named tuple: all pairs of a hand-listed family."""
  for nt in (N.Pair, N.PairSub):
    _namedtuple_sharing(res, nt)
  res.outcomes['namedtuple-sharing'] += 1


def _namedtuple_sharing(res, nt):
  # (pairs are formed within one named-tuple class: Python's own == calls a
  # Pair and a PairSub with equal fields equal, which is leaf-value equality)
  def family_():
    out = []
    for _ in (0,):
      l = ['m']
      out.append(fdl.Config(N.eqnode, x=nt(l, l)))
      out.append(fdl.Config(N.eqnode, x=nt(['m'], ['m'])))
      l = ['m']
      out.append(fdl.Config(N.eqnode, x=nt(l, 'v'), y=l))
      out.append(fdl.Config(N.eqnode, x=nt(['m'], 'v'), y=['m']))
      l = ['m']
      out.append(fdl.Config(N.eqnode, x=[nt(l, 'v')], y=[l]))
      out.append(fdl.Config(N.eqnode, x=[nt(['m'], 'v')], y=[['m']]))
    return out
  cfgs = family_()
  keys = [expected_key(c, True) for c in cfgs]
  for i, a in enumerate(cfgs):
    res.states += 1
    for j, b in enumerate(cfgs):
      res.transitions += 1
      res.nontrivial += 1
      st, r = safe_eq(a, b)
      case = {'namedtuple_sharing': [nt.__name__, i, j]}
      exp = keys[i] == keys[j]
      if st == 'raise':
        res.violation('C06/eq-raises/namedtuple', f'{case}: {r}', case)
      elif r != exp:
        kind = ('equal-configs-compare-unequal' if exp else
                'different-configs-compare-equal')
        res.violation(f'C06/{kind}/sharing-through-namedtuple',
                      f'{case}: {a!r} == {b!r} gave {r}', case)
      elif r and build_canon(a) != build_canon(b):
        res.violation('C06/equal-but-builds-differ/namedtuple', f'{case}',
                      case)


def run_unit(unit, tier, seed):
  res = core.Result()
  if unit[0] == 'ntsharing':
    run_namedtuple_sharing(res)
    return res
  if unit[0] == 'registry':
    run_registry_history(res)
    return res
  if unit[0] == 'rewrites':
    return run_rewrites(unit[1], res)
  if unit[0] == 'alias':
    return run_alias(unit[1], res)
  _, fam, k = unit
  shp, byname = family(fam)
  cfgs = [shapes.materialize(s, byname, LEAVES)[-1] for s in shp]
  keys_f = [expected_key(c, False) for c in cfgs]
  keys_t = [expected_key(c, True) for c in cfgs]
  built = {}
  for i in range(k, len(cfgs), NCHUNK):
    a = cfgs[i]
    res.states += 1
    for j, b in enumerate(cfgs):
      res.transitions += 1
      st, r = safe_eq(a, b)
      case = {'family': fam, 'a': shp[i], 'b': shp[j]}
      cls = classify(shp[i], shp[j])
      if st == 'raise':
        res.violation(f'C06/eq-raises/{cls}', f'{case}: {r}', case)
        continue
      ef = keys_f[i] == keys_f[j]
      et = keys_t[i] == keys_t[j]
      if ef != et:
        res.counters['tuple_identity_dependent_pairs_not_judged'] += 1
        continue
      if i != j and ef:
        res.nontrivial += 1
      res.outcomes[f'{cls}:{r}'] += 1
      if r != ef:
        kind = 'equal-configs-compare-unequal' if ef else (
            'different-configs-compare-equal')
        res.violation(
            f'C06/{kind}/{cls}',
            f'{case}: {a!r} == {b!r} gave {r}; canonical forms '
            f'{"equal" if ef else "differ"}', case)
        continue
      if r and i < j:
        if i not in built:
          built[i] = build_canon(a)
        if j not in built:
          built[j] = build_canon(b)
        if built[i] != built[j]:
          res.violation(f'C06/equal-but-builds-differ/{cls}',
                        f'{case}: builds {built[i]} vs {built[j]}', case)
    if i % 211 == 0:
      res.sample({'family': fam, 'config': repr(a)[:160]})
  res.evals = res.transitions
  return res


def rewrites(cfg):
  """(name, rewritten config) pairs that must all be == cfg."""
  yield 'deepcopy', copy.deepcopy(cfg)
  try:
    yield 'pickle', pickle.loads(pickle.dumps(cfg))
  except (pickle.PicklingError, AttributeError):
    pass      # a callable that cannot be pickled (local function)
  yield 'clear_history', serialization.clear_argument_history(cfg)
  c = copy.deepcopy(cfg)
  # explicit defaults on every Buildable: set each unset defaulted parameter
  seen = set()

  def walk(v):
    if isinstance(v, fdl.Buildable):
      if id(v) in seen:
        return
      seen.add(id(v))
      for idx, (name, p) in enumerate(
          v.__signature_info__.signature.parameters.items()):
        if p.default is p.empty:
          continue
        if p.kind == p.POSITIONAL_ONLY:
          if idx not in v.__arguments__:
            v[idx] = p.default
        elif p.kind in (p.POSITIONAL_OR_KEYWORD, p.KEYWORD_ONLY):
          if name not in v.__arguments__:
            setattr(v, name, p.default)
      for a in list(v.__arguments__.values()):
        walk(a)
    elif isinstance(v, (list, tuple)):
      for a in v:
        walk(a)
    elif isinstance(v, dict):
      for a in v.values():
        walk(a)

  walk(c)
  yield 'explicit_defaults', c
  # a different edit history reaching the same state
  h = copy.deepcopy(cfg)
  for k, v in list(h.__arguments__.items()):
    if isinstance(k, str):
      setattr(h, k, 'scratch')
      delattr(h, k)
      setattr(h, k, v)
  yield 'different_history', h


def run_rewrites(fam, res):
  shp, byname = family(fam)
  for i, s in enumerate(shp):
    cfg = shapes.materialize(s, byname, LEAVES)[-1]
    res.states += 1
    for name, other in rewrites(cfg):
      res.transitions += 1
      res.nontrivial += 1
      case = {'family': fam, 'a': s, 'rewrite': name}
      for x, y in ((cfg, other), (other, cfg)):
        st, r = safe_eq(x, y)
        if st == 'raise':
          res.violation(f'C06/eq-raises/rewrite-{name}', f'{case}: {r}', case)
          break
        if not r:
          res.violation(f'C06/preserving-rewrite-compares-unequal/{name}',
                        f'{case}: {cfg!r} vs {other!r}', case)
          break
      res.outcomes[f'rewrite:{name}'] += 1
    # comparisons with foreign values never raise
    for other in (None, 5, 'x', [cfg], fdl.Config(vfx.rec, 'k', {})):
      st, r = safe_eq(cfg, other)
      res.transitions += 1
      if st == 'raise' or r:
        res.violation('C06/foreign-comparison', f'{cfg!r} == {other!r}: {r}',
                      {'family': fam, 'a': s, 'rewrite': 'foreign'})
  res.evals = res.transitions
  res.sample({'family': fam, 'rewrites_of': len(shp)})
  return res


def alias_shapes():
  """4-node shapes whose nodes 0 and 1 are equal-but-distinct Configs and
  whose nodes 2, 3 range over every definition (kind x slots)."""
  import itertools  # pylint: disable=g-import-not-at-top
  base = (('eq', ('U', 'U')), ('eq', ('U', 'U')))

  def defs(i):
    ch = ['U', ('L', 0)] + [('R', j) for j in range(i)]
    for kind, n in (('eq', 2), ('eq3', 3)):
      for slots in itertools.product(ch, repeat=n):
        yield (kind, slots)

  for d2 in defs(2):
    for d3 in defs(3):
      yield base + (d2, d3)


def alias_rewrites(shape):
  """Redirect one reference to another node with an identical definition."""
  for i, (kind, slots) in enumerate(shape):
    for si, s in enumerate(slots):
      if isinstance(s, tuple) and s[0] == 'R':
        j = s[1]
        for j2 in range(i):
          if j2 != j and shape[j2] == shape[j]:
            new_slots = slots[:si] + (('R', j2),) + slots[si + 1:]
            yield shape[:i] + ((kind, new_slots),) + shape[i + 1:]


def run_alias(k, res):
  ks = shapes.std_kinds(['eq', 'eq3'])
  byname = {x.name: x for x in ks}
  for idx, shape in enumerate(alias_shapes()):
    if idx % NCHUNK != k:
      continue
    a = None
    for other in alias_rewrites(shape):
      if a is None:
        a = shapes.materialize(shape, byname, LEAVES)[-1]
        ka = expected_key(a, False)
        res.states += 1
      b = shapes.materialize(other, byname, LEAVES)[-1]
      exp = ka == expected_key(b, False)
      case = {'family': 'alias', 'a': shape, 'b': other}
      res.transitions += 1
      res.nontrivial += 1
      for x, y in ((a, b), (b, a)):
        st, r = safe_eq(x, y)
        if st == 'raise':
          res.violation('C06/eq-raises/alias', f'{case}: {r}', case)
          break
        if r != exp:
          kind = 'equal-configs-compare-unequal' if exp else (
              'different-configs-compare-equal')
          res.violation(f'C06/{kind}/alias-redirected',
                        f'{case}: {x!r} == {y!r} gave {r}', case)
          break
      res.outcomes[f'alias:{exp}'] += 1
    if idx % 3001 == 0:
      res.sample({'alias_shape': shape})
  res.evals = res.transitions
  return res


def _shape(x):
  return tuple((k, tuple(tuple(s) if isinstance(s, list) else s for s in sl))
               for k, sl in x)


def replay(case):
  res = core.Result()
  if 'namedtuple_sharing' in case:
    run_namedtuple_sharing(res)
    for v in res.violations:
      print(v['what'])
    return res
  if 'registry_history' in case:
    run_registry_history(res)
    for v in res.violations:
      print(v['what'])
    return res
  if case['family'] == 'alias':
    ks = shapes.std_kinds(['eq', 'eq3'])
    byname = {x.name: x for x in ks}
  else:
    _, byname = family(case['family'])
  a = shapes.materialize(_shape(case['a']), byname, LEAVES)[-1]
  if 'rewrite' in case:
    for name, other in rewrites(a):
      if name == case['rewrite']:
        print(a, '\n vs', other, '\n ==', safe_eq(a, other))
        st, r = safe_eq(a, other)
        if st == 'raise' or not r:
          res.violation('C06/rewrite', f'{r}', case)
    return res
  b = shapes.materialize(_shape(case['b']), byname, LEAVES)[-1]
  st, r = safe_eq(a, b)
  ef = expected_key(a, False) == expected_key(b, False)
  print('a =', a, '\nb =', b, '\n== ->', st, r, ' expected', ef)
  if st == 'raise' or r != ef:
    res.violation('C06/pair', f'{st} {r} expected {ef}', case)
  elif r and build_canon(a) != build_canon(b):
    res.violation('C06/equal-but-builds-differ', '', case)
  return res
