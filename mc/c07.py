"""C07: copies are faithful and independent (copy, deepcopy, pickle, cast)."""
from __future__ import annotations

import copy
import itertools
import pickle

import fiddle as fdl
from mc import canon
from mc import core
from mc import shapes
import vfx
from vfx import nodes as N

PROP = 'C07'
LEVEL = 'model_checking'
TECHNIQUE = ('bounded-exhaustive enumeration of configurations x copy '
             'operations x BFS over every edit sequence applied to the copy; '
             'canonical forms and identity sets compared')
RULE = ('every DAG shape (Config / Partial / positional-argument Config, '
        'lists, dicts, tuples; with and without tags on arguments) x {deepcopy, '
        'pickle, copy.copy, copy_with, copy_with(update), deepcopy_with, cast '
        'to Config/Partial/ArgFactory} x every sequence of edits up to a '
        'length on the copy (set/del argument, index assignment, add/remove/'
        'clear/set tags, in-place mutation of a nested list, edit of a nested '
        'Buildable); a variant whose leaf is the NO_VALUE sentinel stored as an '
        'argument value; distinct by (shape, tags variant, copy op, edit '
        'sequence); non-trivial when the shape has a nested mutable value')
ASSUMPTIONS = [
    'a twin configuration materialised independently from the same shape '
    'serves as the model of what the copy must report after the same edits',
    'history entries are not compared (copy.copy documents that history is '
    'not preserved)',
]
LEVEL_TEXT = ('For every bounded configuration and every copy operation: the '
              'copy has the same canonical form (callables identical), shares '
              'exactly what the statement allows, behaves like an independent '
              'twin under every edit sequence, and the original reports and '
              'builds the same after every edit of the copy.')
LEVEL_NOTE = ('Trusted: mc.canon, mutable_ids. Bounds: N<=3 nodes, edit '
              'sequences <=2; the thorough tier adds three-node shapes of the '
              'reduced menu and copy_with / deepcopy_with as first operation.')

MENU = ['cfg', 'par', 'cfgpos', 'list2', 'dict1', 'tuple1', 'mutdef', 'ckw',
        'cann']
ROOTS = ['cfg', 'par', 'cfgpos', 'mutdef', 'ckw', 'cann']
NCHUNK = 48


def bounds(tier):
  if tier == 'quick':
    return dict(n=2, n_small=2, small_menu=['cfg', 'par', 'list2'], seq=2,
                long_ops=['deepcopy', 'copy', 'pickle', 'cast_partial'])
  return dict(n=2, n_small=3, small_menu=['cfg', 'par', 'list2'], seq=2,
              long_ops=['deepcopy', 'copy', 'pickle', 'cast_partial',
                        'copy_with', 'deepcopy_with'])


def units(tier, seed):
  return list(range(NCHUNK))


def all_cases(b):
  make((('cfg', ('U', 'U')),), 'none')      # initialises BYNAME
  ks = [BYNAME[m] for m in MENU]
  for s in shapes.all_shapes(ks, b['n'], 1, root_kinds=ROOTS):
    for tagv in ('none', 'tags'):
      yield s, tagv
  # an argument whose stored value is the NO_VALUE sentinel itself
  ks3 = [BYNAME[m] for m in ['cfg', 'par', 'cfgpos', 'list2']]
  for s in shapes.all_shapes(ks3, 2, 1, root_kinds=ROOTS):
    if any(sl == ('L', 0) for _, slots in s for sl in slots):
      yield s, 'novalue'
  if b['n_small'] > b['n']:
    ks2 = [BYNAME[m] for m in b['small_menu']]
    for s in shapes.enumerate_shapes(ks2, b['n_small'], 1, root_kinds=ROOTS):
      for tagv in ('none', 'tags'):
        yield s, tagv


BYNAME = None


def _extra_kinds():
  K = shapes.Kind

  def mk_mutdef(vals):
    # the mutable default object itself made an explicit argument
    c = fdl.Config(N.md, x=N.MUT_DEFAULT)
    if vals[0] is not shapes.UNSET:
      c.y = vals[0]
    return c

  def mk_kw(vals):
    kw = {n: v for n, v in zip(('x', 'extra'), vals) if v is not shapes.UNSET}
    return fdl.Config(N.node_kw, **kw)

  def mk_ann(vals):
    kw = {n: v for n, v in zip(('x', 'y'), vals) if v is not shapes.UNSET}
    return fdl.Config(N.node_tagged, **kw)

  return {'mutdef': K('mutdef', 1, True, mk_mutdef, True),
          'ckw': K('ckw', 2, True, mk_kw, True),
          'cann': K('cann', 2, True, mk_ann, True)}


def make(shape, tagv):
  global BYNAME
  if BYNAME is None:
    BYNAME = {k.name: k for k in shapes.std_kinds(
        [m for m in MENU if m not in ('mutdef', 'ckw', 'cann')])}
    BYNAME.update(_extra_kinds())
  objs = shapes.materialize(
      shape, BYNAME, [fdl.NO_VALUE] if tagv == 'novalue' else ['L1'])
  root = objs[-1]
  if tagv == 'tags':
    names = _named(root)
    if names:
      fdl.add_tag(root, names[0], N.TagA)
      fdl.add_tag(root, names[-1], N.TagB)
    # tags on arguments that may have no value and no parameter name of
    # their own: positional-only index, *args slot, a **kwargs name
    params = list(root.__signature_info__.signature.parameters.values())
    if params and params[0].kind == params[0].POSITIONAL_ONLY:
      fdl.add_tag(root, 0, N.TagC)
      fdl.add_tag(root, 3, N.TagA)
    if root.__fn_or_cls__ is N.node_kw:
      fdl.add_tag(root, 'other_extra', N.TagC)
    if root.__fn_or_cls__ is N.node_tagged:
      # the annotation tag removed and replaced
      fdl.set_tags(root, 'x', {N.TagC})
    for o in objs[:-1]:
      if isinstance(o, fdl.Buildable) and _named(o):
        fdl.add_tag(o, _named(o)[0], N.TagC)
  return root


def _named(b):
  return [n for n, p in b.__signature_info__.signature.parameters.items()
          if p.kind in (p.POSITIONAL_OR_KEYWORD, p.KEYWORD_ONLY)]


COPY_OPS = ['deepcopy', 'pickle', 'copy', 'copy_with', 'copy_with_update',
            'deepcopy_with', 'cast_config', 'cast_partial', 'cast_argfactory']
DEEP = {'deepcopy', 'pickle', 'deepcopy_with'}


def do_copy(op, cfg):
  if op == 'deepcopy':
    return copy.deepcopy(cfg)
  if op == 'pickle':
    return pickle.loads(pickle.dumps(cfg))
  if op == 'copy':
    return copy.copy(cfg)
  if op == 'copy_with':
    return fdl.copy_with(cfg)
  if op == 'copy_with_update':
    return fdl.copy_with(cfg, **{_named(cfg)[0]: 'U'})
  if op == 'deepcopy_with':
    return fdl.deepcopy_with(cfg)
  if op == 'cast_config':
    return fdl.cast(fdl.Config, cfg)
  if op == 'cast_partial':
    return fdl.cast(fdl.Partial, cfg)
  if op == 'cast_argfactory':
    return fdl.cast(fdl.ArgFactory, cfg)
  raise ValueError(op)


def mask_root_type(c):
  if isinstance(c, tuple) and c and c[0] == 'B':
    return ('B', '<type>') + c[2:]
  return c


# ------------------------------------------------------------ edits
def edits_for(cfg, deep):
  names = _named(cfg)
  out = []
  if names:
    n0 = names[0]
    out += [('set', n0, 'E'), ('del', n0), ('add_tag', n0, 'TagC'),
            ('remove_tag', n0, 'TagA'), ('clear_tags', n0),
            ('set_tags', names[-1], 'TagC')]
    out.append(('tagged_value', names[-1]))
  params = list(cfg.__signature_info__.signature.parameters.values())
  if params and params[0].kind == params[0].POSITIONAL_ONLY:
    out += [('seti', 0, 'E'), ('deli', 0), ('setva',)]
  if deep:
    out += [('mutate_nested_list',), ('edit_nested_buildable',)]
  return out


def _first_nested(cfg, types):
  found = []
  seen = set()

  def walk(v, top):
    if id(v) in seen:
      return
    seen.add(id(v))
    if not top and isinstance(v, types):
      found.append(v)
    if isinstance(v, fdl.Buildable):
      for k in sorted(v.__arguments__, key=canon.arg_sort_key):
        walk(v.__arguments__[k], False)
    elif isinstance(v, (list, tuple)):
      for a in v:
        walk(a, False)
    elif isinstance(v, dict):
      for a in v.values():
        walk(a, False)

  walk(cfg, True)
  return found[0] if found else None


TAGS = {'TagA': N.TagA, 'TagB': N.TagB, 'TagC': N.TagC}


def apply_edit(cfg, e):
  """Returns 'ok' or 'raise:<Type>'."""
  try:
    k = e[0]
    if k == 'set':
      setattr(cfg, e[1], e[2])
    elif k == 'del':
      delattr(cfg, e[1])
    elif k == 'add_tag':
      fdl.add_tag(cfg, e[1], TAGS[e[2]])
    elif k == 'remove_tag':
      fdl.remove_tag(cfg, e[1], TAGS[e[2]])
    elif k == 'clear_tags':
      fdl.clear_tags(cfg, e[1])
    elif k == 'set_tags':
      fdl.set_tags(cfg, e[1], {TAGS[e[2]]})
    elif k == 'tagged_value':
      setattr(cfg, e[1], N.TagB.new('tv'))
    elif k == 'seti':
      cfg[e[1]] = e[2]
    elif k == 'deli':
      del cfg[e[1]]
    elif k == 'setva':
      cfg[fdl.VARARGS:] = ['V1', 'V2']
    elif k == 'mutate_nested_list':
      lst = _first_nested(cfg, list)
      if lst is None or lst is N.MUT_DEFAULT:
        # (the module-level default object is shared by every fixture that
        # names it: the harness must not edit it)
        return 'n/a'
      lst.append('APPENDED')
    elif k == 'edit_nested_buildable':
      b = _first_nested(cfg, fdl.Buildable)
      if b is None:
        return 'n/a'
      names = _named(b)
      if not names:
        return 'n/a'
      setattr(b, names[0], 'NESTED-EDIT')
      fdl.add_tag(b, names[0], N.TagB)
    else:
      raise ValueError(e)
    return 'ok'
  except Exception as ex:  # pylint: disable=broad-except
    return 'raise'


def build_canon(cfg):
  vfx.reset()
  try:
    return canon.canon_built(fdl.build(cfg), normalize_partials=False)
  except Exception as e:  # pylint: disable=broad-except
    return ('raise', type(e).__name__)


def check_case(shape, tagv, op, b, res):
  case = {'shape': shape, 'tags': tagv, 'op': op}
  orig = make(shape, tagv)
  if op == 'copy_with_update' and not _named(orig):
    return
  c_orig = canon.canon_cfg(orig)
  built_orig = build_canon(orig)
  try:
    cp = do_copy(op, orig)
  except Exception as e:  # pylint: disable=broad-except
    res.violation(f'C07/copy-raises/{op}', f'{case}: {type(e).__name__}: {e}',
                  case)
    return
  res.transitions += 1
  # the copy operation itself must not disturb the original
  if canon.canon_cfg(orig) != c_orig:
    res.violation(f'C07/copy-modified-original/{op}', f'{case}', case)
    return
  # faithful
  c_cp = canon.canon_cfg(cp)
  exp = c_orig
  if op == 'copy_with_update':
    twin = make(shape, tagv)
    setattr(twin, _named(twin)[0], 'U')
    exp = canon.canon_cfg(twin)
  if op.startswith('cast'):
    want = {'cast_config': 'Config', 'cast_partial': 'Partial',
            'cast_argfactory': 'ArgFactory'}[op]
    if type(cp).__name__ != want:
      res.violation(f'C07/cast-type/{op}', f'{case}: {type(cp)}', case)
      return
    if mask_root_type(c_cp) != mask_root_type(exp):
      res.violation(f'C07/unfaithful/{op}',
                    f'{case}: copy {c_cp} original {exp}', case)
      return
  elif c_cp != exp:
    res.violation(f'C07/unfaithful/{op}',
                  f'{case}: copy {c_cp} original {exp}', case)
    return
  if cp.__fn_or_cls__ is not orig.__fn_or_cls__:
    res.violation(f'C07/callable-not-identical/{op}', f'{case}', case)
    return
  # independent
  deep = op in DEEP
  if deep:
    common = set(canon.mutable_ids(cp)) & set(canon.mutable_ids(orig))
    if common:
      m = canon.mutable_ids(orig)
      res.violation(
          f'C07/deep-copy-shares/{op}',
          f'{case}: shared with the original: '
          f'{[type(m[i]).__name__ for i in list(common)[:4]]} e.g. '
          f'{m[next(iter(common))]!r}', case)
      return
  else:
    if cp is orig:
      res.violation(f'C07/shallow-copy-is-the-original/{op}', f'{case}', case)
      return
    shared = []
    if cp.__arguments__ is orig.__arguments__:
      shared.append('__arguments__')
    if cp.__argument_tags__ is orig.__argument_tags__:
      shared.append('__argument_tags__')
    for k, s in cp.__argument_tags__.items():
      if k in orig.__argument_tags__ and s is orig.__argument_tags__[k]:
        shared.append(f'tag set of {k}')
    if cp.__argument_history__ is orig.__argument_history__:
      shared.append('__argument_history__')
    for k, h in cp.__argument_history__.items():
      if k in orig.__argument_history__ and h is orig.__argument_history__[k]:
        shared.append(f'history list of {k}')
    if shared:
      res.violation(f'C07/shallow-copy-shares-storage/{op}',
                    f'{case}: {shared}', case)
      return
    for k, v in orig.__arguments__.items():
      if op == 'copy_with_update' and k == _named(orig)[0]:
        continue
      if k not in cp.__arguments__ or cp.__arguments__[k] is not v:
        res.violation(f'C07/shallow-copy-value-not-shared/{op}',
                      f'{case}: argument {k}', case)
        return
  # edit sequences on the copy
  alphabet = edits_for(cp, deep)
  maxlen = b['seq'] if (op in b['long_ops'] or len(shape) == 1) else b['seq'] - 1
  for ln in range(1, max(maxlen, 1) + 1):
    for seq in itertools.product(range(len(alphabet)), repeat=ln):
      if ln > 1 and seq[0] == seq[1] and alphabet[seq[0]][0] in (
          'mutate_nested_list',):
        pass
      orig2 = make(shape, tagv)
      c_o2 = canon.canon_cfg(orig2)
      cp2 = do_copy(op, orig2)
      twin = make(shape, tagv)
      if op == 'copy_with_update':
        setattr(twin, _named(twin)[0], 'U')
      for ei in seq:
        e = alphabet[ei]
        r2 = apply_edit(twin, e)
        if r2 == 'n/a':
          continue        # not applicable to this configuration
        r1 = apply_edit(cp2, e)
        res.transitions += 1
        if r1 != r2:
          res.violation(
              f'C07/copy-behaves-differently/{op}/{e[0]}',
              f'{case} edits {[alphabet[i] for i in seq]}: edit {e} on the '
              f'copy: {r1}, on an independent twin: {r2}', dict(
                  case, seq=[alphabet[i] for i in seq]))
          return
      if canon.canon_cfg(orig2) != c_o2:
        res.violation(
            f'C07/edit-of-copy-changed-original/{op}/{alphabet[seq[0]][0]}',
            f'{case} edits {[alphabet[i] for i in seq]}: original now '
            f'{orig2!r}', dict(case, seq=[alphabet[i] for i in seq]))
        return
      got = canon.canon_cfg(cp2)
      want = canon.canon_cfg(twin)
      if op.startswith('cast'):
        got, want = mask_root_type(got), mask_root_type(want)
      if got != want:
        res.violation(
            f'C07/copy-diverges-from-twin/{op}',
            f'{case} edits {[alphabet[i] for i in seq]}: copy {cp2!r} twin '
            f'{twin!r}', dict(case, seq=[alphabet[i] for i in seq]))
        return
      if ln == 1 and build_canon(orig2) != built_orig:
        res.violation(
            f'C07/edit-of-copy-changed-build-of-original/{op}',
            f'{case} edits {[alphabet[i] for i in seq]}', dict(
                case, seq=[alphabet[i] for i in seq]))
        return
  res.outcomes[f'{op}:{tagv}'] += 1


def run_unit(unit, tier, seed):
  b = bounds(tier)
  res = core.Result()
  for idx, (shape, tagv) in enumerate(all_cases(b)):
    if idx % NCHUNK != unit:
      continue
    res.states += 1
    if len(shape) > 1:
      res.nontrivial += 1
    for op in COPY_OPS:
      res.evals += 1
      check_case(shape, tagv, op, b, res)
    if idx % 499 == 0:
      res.sample({'shape': shape, 'tags': tagv,
                  'config': repr(make(shape, tagv))[:160]})
  return res


def _shape(x):
  return tuple((k, tuple(tuple(s) if isinstance(s, list) else s for s in sl))
               for k, sl in x)


def replay(case):
  res = core.Result()
  shape = _shape(case['shape'])
  print('config:', make(shape, case['tags']), ' op:', case['op'],
        ' edits:', case.get('seq'))
  check_case(shape, case['tags'], case['op'], bounds('thorough'), res)
  return res
