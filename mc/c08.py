"""C08: traversal paths are sound and complete; identity traversal rebuilds."""
from __future__ import annotations

import collections
import sys

import fiddle as fdl
from fiddle import daglish
from fiddle._src.experimental import daglish_legacy
from mc import canon
from mc import core
from mc import shapes
from vfx import nodes as N

PROP = 'C08'
LEVEL = 'model_checking'
TECHNIQUE = ('bounded-exhaustive structure enumeration; every daglish query '
             'compared with an independent brute-force path enumerator')
RULE = ('all DAG shapes over {Config kw, Config positional, list, tuple, dict, '
        'defaultdict, namedtuple, Tmp (flatten creates temporaries), empty '
        'containers} with leaves {str, a shared constant tuple} up to N nodes, '
        'plus each shape with one back edge closed through a list or dict '
        '(cycle), traversed also with a callback that swallows failing '
        'children; kinds include a defaultdict with unsorted insertion order '
        'and a class derived from a named tuple; non-trivial = has sharing or '
        'a cycle')
ASSUMPTIONS = [
    'memoized traversal is judged on mutable objects (Buildable, list, dict, '
    'Tmp): each exactly once; tuples/leaves only for soundness',
    'temporaries created by Tmp.flatten are compared by equality, not identity '
    '(follow_path creates a fresh one)',
    'on cyclic inputs memoized traversals must raise something other than '
    'RecursionError; un-memoized ones must merely terminate',
    'daglish_legacy.memoized_traverse (all paths by id) is skipped on '
    'structures containing the temporary-creating node type: it re-follows '
    'paths and looks the fresh temporary up by id, which cannot work by design',
    'all-paths answers are judged for objects that daglish calls memoizable '
    '(mutable objects and non-empty tuples); for leaves only soundness',
]
LEVEL_TEXT = ('Every structure up to the bound is traversed by every public '
              'daglish / daglish_legacy query and compared path-by-path and '
              'object-by-object with an independent enumerator.')
LEVEL_NOTE = ('Trusted: canon.children/all_paths (plain recursion over dunder '
              'storage and builtin containers). Bounds: N<=2 full / N<=3 / N<=4 '
              'reduced menus (quick); N<=3 full, N<=4 reduced with two leaves '
              '(thorough).')

CONST_TUPLE = ((1, 2), 3)
MENUS = {
    'full': ['cfg', 'cfgpos', 'list0', 'list2', 'tuple0', 'tuple2', 'dict2',
             'ddict1', 'ddict2r', 'nt', 'ntsub', 'tmp', 'dict0', 'tmpprim'],
    'mid': ['cfg', 'list2', 'tuple2', 'dict1', 'tmp', 'tmpprim'],
    'small': ['cfg', 'list2', 'dict1', 'tuple1'],
}
NCHUNK = 32


def bounds(tier):
  if tier == 'quick':
    return {'plans': [['full', 2, 2], ['mid', 3, 1], ['small', 4, 1]]}
  return {'plans': [['full', 3, 1], ['mid', 3, 2], ['small', 4, 2]]}


def units(tier, seed):
  out = [('shapes', menu, n, nl, k)
         for menu, n, nl in bounds(tier)['plans'] for k in range(NCHUNK)]
  # leaves that are a (shared) mutable non-container and the NO_VALUE
  # sentinel stored as an argument value
  out += [('shapes', 'small', 3, 2, k, 'special-leaves') for k in range(8)]
  out += [('pressure', k) for k in (2, 3, 4, 5, 8, 13, 21)]
  out.append(('registry_history',))
  return out


def registry_history(res):
  """A node type that becomes traversable *after* a derived registry has
  already looked it up: later traversals must see the registration."""
  class Late:
    def __init__(self, items):
      self.items = items

  def bad(key, msg):
    res.violation(f'C08/{key}', msg, {'registry_history': True})

  for use_fallback_obj in (True, 'explicit'):
    Late = type('Late', (Late,), {})
    if use_fallback_obj is True:
      parent = None
      derived = daglish.NodeTraverserRegistry(use_fallback=True)
    else:
      parent = daglish.NodeTraverserRegistry(use_fallback=True)
      derived = daglish.NodeTraverserRegistry(use_fallback=parent)
    inner = ['x']
    root = [Late([inner, 'y']), inner]
    before = [spec(p) for _, p in daglish.iterate(root, memoized=False,
                                                  registry=derived)]
    res.transitions += 1
    register = (daglish.register_node_traverser if parent is None
                else parent.register_node_traverser)
    register(
        Late, flatten_fn=lambda v: (tuple(v.items), None),
        unflatten_fn=lambda vals, _, L=Late: L(list(vals)),
        path_elements_fn=lambda v: tuple(
            daglish.Index(i) for i in range(len(v.items))))
    after = [spec(p) for _, p in daglish.iterate(root, memoized=False,
                                                 registry=derived)]
    res.transitions += 1
    res.states += 1
    res.nontrivial += 1
    if len(before) != 4:
      bad('registry-history/unregistered-type-traversed', f'{before}')
    if len(after) != 7:
      bad('registry-history/late-registration-not-seen',
          f'after registering the type in the fallback registry the derived '
          f'registry still reports {after}')
    paths = daglish.collect_paths_by_id(root, memoizable_only=True,
                                        registry=derived)
    if len(paths.get(id(inner), [])) != 2:
      bad('registry-history/all-paths-miss-late-type',
          f'{paths.get(id(inner))}')
  res.sample({'registry_history': 'lookup, register in fallback, lookup'})


def pressure_roots(k):
  """Structures with k temporary-creating nodes (id-recycling pressure)."""
  yield [N.TmpPrim('L1') for _ in range(k)]
  yield [N.Tmp('L1', N.TmpPrim(i)) for i in range(k)]
  yield {i: (N.TmpPrim('L1'), [N.TmpPrim('L2')]) for i in range(k)}
  shared = N.TmpPrim('S')
  yield [fdl.Config(N.node, x=N.TmpPrim('L1'), y=shared) for _ in range(k)]


class _Temp(list):
  """Marks a temporary in the independent enumeration."""


class _TempLeaf:
  """A primitive temporary (fresh on every flatten)."""

  def __init__(self, value):
    self.value = value


PRIMS = (bool, int, float, complex, str, bytes, type(None), type(Ellipsis),
         type(NotImplemented))


def my_internable(v):
  import enum  # pylint: disable=g-import-not-at-top
  if type(v) is _TempLeaf:
    return True
  if isinstance(v, PRIMS) or isinstance(v, enum.Enum):
    return True
  return type(v) is tuple and all(my_internable(e) for e in v)


def expected_memoized_paths(root, memoize_internables=False):
  """Paths a memoized traversal must report: DFS in child order; with
  memoize_internables=False non-internable objects once (first path) and
  internables every time; with True every object (by identity) once."""
  out = []
  memo = set()
  pins = []

  def walk(v, path):
    if memoize_internables or not my_internable(v):
      if type(v) is _TempLeaf:
        v = v.value
      if id(v) in memo:
        return
      memo.add(id(v))
      pins.append(v)     # keep alive: ids of temporaries must not recur
    out.append(path)
    ch = children(v)
    if ch:
      for pe, c in ch:
        walk(c, path + (pe,))

  walk(root, ())
  return out


def children(x):
  if type(x) is N.TmpPrim:
    return [(('attr', 'ibang'), _TempLeaf(x.ibang)),
            (('attr', 'sbang'), _TempLeaf(x.sbang))]
  if type(x) is _TempLeaf:
    return None
  if type(x) is N.Tmp:
    return [(('attr', 'wa'), _Temp([x.a])), (('attr', 'wb'), _Temp([x.b]))]
  if type(x) is _Temp:
    return [(('index', 0), x[0])]
  return canon.children(x)


def all_paths(root, limit=200000):
  out = []

  def walk(v, path, stack):
    out.append((path, v))
    if len(out) > limit:
      raise RecursionError('too many paths')
    ch = children(v)
    if ch is None:
      return
    if id(v) in stack:
      raise RecursionError('cycle')
    stack.add(id(v))
    for pe, c in ch:
      walk(c, path + (pe,), stack)
    stack.discard(id(v))

  walk(root, (), set())
  return out


def spec(path):
  out = []
  for e in path:
    if isinstance(e, daglish.Index):
      out.append(('index', e.index))
    elif isinstance(e, daglish.Key):
      out.append(('key', e.key))
    elif isinstance(e, daglish.Attr):
      out.append(('attr', e.name))
    else:
      out.append(('other', repr(e)))
  return tuple(out)


def same(a, b):
  if type(a) is _TempLeaf:
    a = a.value
  if type(b) is _TempLeaf:
    b = b.value
  if isinstance(a, (str, int)) and isinstance(b, (str, int)):
    return a == b and type(a) is type(b)
  if type(a) is _Temp or type(b) is _Temp:
    return list(a) == list(b) and all(x is y for x, y in zip(a, b))
  return a is b


def is_mutable(v):
  return isinstance(v, fdl.Buildable) or type(v) in (
      list, dict, collections.defaultdict, N.Tmp, N.TmpPrim, bytearray, set)


def is_obj(v):
  return is_mutable(v) or (isinstance(v, tuple) and v != ())


def check(root, res, case, label):
  def bad(key, msg):
    res.violation(f'C08/{key}', f'{case}: {msg}', case)

  indep = all_paths(root)
  by_path = {p: v for p, v in indep}
  assert len(by_path) == len(indep)
  paths_of = collections.defaultdict(set)
  pinned = {}
  for p, v in indep:
    if type(v) not in (_Temp, _TempLeaf) and is_obj(v):
      paths_of[id(v)].add(p)
      pinned[id(v)] = v
  under_temp = set()
  for p, v in indep:
    if type(v) in (_Temp, _TempLeaf):
      under_temp.add(p)

  def follow_ok(value, path):
    try:
      got = daglish.follow_path(root, path)
    except Exception as e:  # pylint: disable=broad-except
      return f'follow_path raised {type(e).__name__}: {e}'
    if spec(path) in under_temp:
      return None if got == value else 'temporary differs'
    if got is not value:
      return f'follow_path gives {got!r}, reported value {value!r}'
    return None

  # 1. un-memoized stream
  try:
    stream = list(daglish.iterate(root, memoized=False))
  except Exception as e:  # pylint: disable=broad-except
    return bad('iterate-unmemoized-raises', repr(e))
  res.transitions += 1
  seen = collections.Counter()
  for value, path in stream:
    err = follow_ok(value, path)
    if err:
      return bad('iterate-unmemoized-unsound', f'path {path}: {err}')
    seen[spec(path)] += 1
  if set(seen) != set(by_path) or any(c != 1 for c in seen.values()):
    miss = set(by_path) - set(seen)
    extra = set(seen) - set(by_path)
    dup = [p for p, c in seen.items() if c != 1]
    return bad('iterate-unmemoized-incomplete',
               f'missing={sorted(miss)[:3]} extra={sorted(extra)[:3]} '
               f'dup={dup[:3]}')
  # 2. memoized streams
  for mi in (True, False):
    try:
      stream = list(daglish.iterate(root, memoized=True,
                                    memoize_internables=mi))
    except Exception as e:  # pylint: disable=broad-except
      return bad('iterate-memoized-raises', repr(e))
    res.transitions += 1
    count = collections.Counter()
    for value, path in stream:
      err = follow_ok(value, path)
      if err:
        return bad('iterate-memoized-unsound', f'path {path}: {err}')
      if is_mutable(value) and spec(path) not in under_temp:
        count[id(value)] += 1
    mut = {i for i, v in pinned.items() if is_mutable(v)}
    if set(count) != mut or any(c != 1 for c in count.values()):
      return bad(
          f'iterate-memoized-visits(memoize_internables={mi})',
          f'{len(mut)} distinct mutable objects, visit counts '
          f'{sorted(count.values())}, missing={len(mut - set(count))}')
    # documented meaning of memoize_internables: when False, internable
    # values (constants and tuples of constants) are visited at every path
    # and everything else once (Buildable.__eq__ relies on this); when True
    # every object, by identity, is visited once. Temporaries are distinct
    # objects, so they are always visited.
    exp = expected_memoized_paths(root, mi)
    got = [spec(p) for _, p in stream]
    if sorted(got, key=repr) != sorted(exp, key=repr):
      miss = [p for p in exp if p not in set(got)]
      extra = [p for p in got if p not in set(exp)]
      return bad(f'iterate-memoized-paths(memoize_internables={mi})',
                 f'missing={miss[:3]} extra={extra[:3]} '
                 f'counts {len(got)} vs {len(exp)}')
  # 3. collect_paths_by_id (both implementations)
  for name, fn in (('daglish', lambda: daglish.collect_paths_by_id(
      root, memoizable_only=True)), ('legacy', lambda: (
          daglish_legacy.collect_paths_by_id(root, memoizable_only=True)))):
    try:
      got = fn()
    except Exception as e:  # pylint: disable=broad-except
      return bad(f'collect_paths_by_id-{name}-raises', repr(e))
    res.transitions += 1
    for i, v in pinned.items():
      gp = got.get(i)
      if gp is None:
        return bad(f'collect_paths_by_id-{name}-missing',
                   f'no entry for {v!r}')
      sp = [spec(p) for p in gp]
      if set(sp) != paths_of[i] or len(sp) != len(set(sp)):
        return bad(f'collect_paths_by_id-{name}-paths',
                   f'for {v!r}: got {sorted(sp)} expected '
                   f'{sorted(paths_of[i])}')
  # 4. State.get_all_paths during memoized and basic traversals
  for tname, tcls in (('memoized', daglish.MemoizedTraversal),
                      ('basic', daglish.BasicTraversal)):
    for caching in (True, False):
      records = []

      def fn(value, state):
        cur = state.current_path
        in_temp = any(spec(cur[:k]) in under_temp
                      for k in range(len(cur) + 1))
        # temporaries (and leaves hanging off them) have no stable identity:
        # the all-paths query is out of domain there.
        if not in_temp or (is_obj(value) and spec(cur) not in under_temp):
          first = state.get_all_paths(allow_caching=caching)
          snapshot = list(first)
          # the answer belongs to the caller: editing it must not change
          # what later queries return
          try:
            first.clear()
          except AttributeError:
            pass
          again = state.get_all_paths(allow_caching=caching)
          records.append((value, cur, snapshot))
          records.append((value, cur, list(again)))
        if state.is_traversable(value):
          for _ in state.yield_map_child_values(value):
            pass
        return None

      try:
        tcls.run(fn, root)
      except Exception as e:  # pylint: disable=broad-except
        return bad(f'get_all_paths-{tname}-raises', repr(e))
      res.transitions += 1
      for value, cur, paths in records:
        for p in paths:
          err = follow_ok(value, p)
          if err:
            return bad(f'get_all_paths-{tname}-unsound',
                       f'value {value!r} current {cur} path {p}: {err}')
        if is_obj(value):
          sp = [spec(p) for p in paths]
          if set(sp) != paths_of[id(value)] or len(sp) != len(set(sp)):
            return bad(
                f'get_all_paths-{tname}(allow_caching={caching})',
                f'for {value!r}: got {sorted(sp)} expected '
                f'{sorted(paths_of[id(value)])}')
        elif spec(cur) not in {spec(p) for p in paths}:
          return bad(f'get_all_paths-{tname}-leaf-misses-current-path',
                     f'{value!r} at {cur}: {paths}')
  # 5. legacy collect_value_by_path
  try:
    got = daglish_legacy.collect_value_by_path(root, memoizable_only=False)
  except Exception as e:  # pylint: disable=broad-except
    return bad('collect_value_by_path-raises', repr(e))
  res.transitions += 1
  gp = {spec(p): v for p, v in got.items()}
  if set(gp) != set(by_path):
    return bad('collect_value_by_path-paths',
               f'missing={sorted(set(by_path) - set(gp))[:3]} '
               f'extra={sorted(set(gp) - set(by_path))[:3]}')
  for p, v in gp.items():
    if not same(by_path[p], v) and p not in under_temp:
      return bad('collect_value_by_path-values', f'{p}: {v!r}')
  # 5b. a memoized map whose results do not retain the visited values
  def render(value, state):
    if state.is_traversable(value):
      return list(state.yield_map_child_values(value))
    return f'<{value!r}>'

  def ref_render(v):
    ch = children(v)
    if ch is None:
      return f'<{(v.value if type(v) is _TempLeaf else v)!r}>'
    return [ref_render(c) for _, c in ch]

  try:
    got = daglish.MemoizedTraversal.run(render, root)
  except Exception as e:  # pylint: disable=broad-except
    return bad('memoized-map-raises', repr(e))
  res.transitions += 1
  exp = ref_render(root)
  if got != exp:
    return bad('memoized-map-result', f'got {got!r} expected {exp!r}')
  # 6. identity rebuilds
  c_shared = canon.canon_cfg(root)
  c_tree = canon.Canon(unfold=True).c(root)

  def ident(value, state):
    return state.map_children(value)

  try:
    out = daglish.MemoizedTraversal.run(ident, root)
    res.transitions += 1
    if canon.canon_cfg(out) != c_shared:
      return bad('identity-rebuild-memoized',
                 f'rebuilt {canon.canon_cfg(out)} original {c_shared}')
    if is_mutable(root) and out is root:
      return bad('identity-rebuild-memoized-not-a-copy', 'returned the input')
    out = daglish.BasicTraversal.run(ident, root)
    res.transitions += 1
    if canon.Canon(unfold=True).c(out) != c_tree:
      return bad('identity-rebuild-basic', f'{out!r}')

    def legacy_ident(path, value):
      return (yield)

    out = daglish_legacy.traverse_with_path(legacy_ident, root)
    res.transitions += 1
    if canon.Canon(unfold=True).c(out) != c_tree:
      return bad('identity-rebuild-legacy-traverse_with_path', f'{out!r}')
    seen_paths = {}

    def legacy_memo(all_paths_, value):
      if is_obj(value):
        seen_paths[id(value)] = [spec(p) for p in all_paths_]
      return (yield)

    if not under_temp:
      # legacy memoized traversal whose function returns None: every mutable
      # object is still visited exactly once
      visits = collections.Counter()

      def legacy_none(all_paths_, value):
        if is_mutable(value):
          visits[id(value)] += 1
        yield
        return None

      daglish_legacy.memoized_traverse(legacy_none, root)
      res.transitions += 1
      want_visits = {i for i, v in pinned.items() if is_mutable(v)}
      if set(visits) != want_visits or any(c != 1 for c in visits.values()):
        return bad('legacy-memoized_traverse-visits',
                   f'visit counts {sorted(visits.values())} for '
                   f'{len(want_visits)} distinct mutable objects')
    if under_temp:
      # the legacy all-paths traversals look parents up by id after
      # re-following the path, which cannot work for temporaries: skipped
      res.counters['legacy_all_paths_skipped_on_temporaries'] += 1
    else:
      out = daglish_legacy.memoized_traverse(legacy_memo, root)
      res.transitions += 1
      if canon.canon_cfg(out) != c_shared:
        return bad('identity-rebuild-legacy-memoized_traverse', f'{out!r}')
      for i, sp in seen_paths.items():
        if i in paths_of and set(sp) != paths_of[i]:
          return bad('legacy-memoized_traverse-all-paths',
                     f'{pinned[i]!r}: {sorted(sp)} vs {sorted(paths_of[i])}')
  except Exception as e:  # pylint: disable=broad-except
    return bad('identity-rebuild-raises', f'{type(e).__name__}: {e}')
  shared = any(len(ps) > 1 for ps in paths_of.values())
  res.outcomes[f'{label}:shared={shared}:paths={min(len(indep), 12)}'] += 1
  return shared


def _internable_container(v):
  return False


def check_cycle(root, node, res, case):
  """Closes a back edge node -> root and checks every traversal."""
  old_limit = sys.getrecursionlimit()
  sys.setrecursionlimit(220)
  try:
    _check_cycle(root, node, res, case)
  finally:
    sys.setrecursionlimit(old_limit)


def _check_cycle(root, node, res, case):
  if type(node) is list:
    node.append(root)
  else:
    node['cyc'] = root

  def bad(key, msg):
    res.violation(f'C08/{key}', f'{case}: {msg}', case)

  def run(name, f, must_report):
    res.transitions += 1
    try:
      f()
    except RecursionError:
      if must_report:
        bad(f'cycle-not-reported/{name}', 'RecursionError instead of a '
            'cycle error')
      return
    except Exception:  # pylint: disable=broad-except
      return
    bad(f'cycle-accepted/{name}', 'traversal of a cyclic structure returned '
        'normally')

  ident = lambda v, s: s.map_children(v)
  run('iterate-memoized', lambda: list(daglish.iterate(root)), True)
  run('iterate-memoized-nointern', lambda: list(daglish.iterate(
      root, memoize_internables=False)), True)
  run('map_children-memoized', lambda: daglish.MemoizedTraversal.run(
      ident, root), True)
  run('build', lambda: fdl.build(root), True)

  # a callback that tolerates failing children: a leaf raises, the exception
  # passes through the enclosing list / tuple and is swallowed by the dict or
  # Buildable above it; the cycle must still be reported
  class Boom(Exception):
    pass

  def tolerant(value, state):
    if isinstance(value, str):
      raise Boom(value)
    if not state.is_traversable(value):
      return value
    traverser = daglish.find_node_traverser(type(value))
    values, _ = traverser.flatten(value)
    first = None
    for v, pe in zip(values, traverser.path_elements(value)):
      try:
        state.call(v, pe)
      except Boom as e:
        first = first or e
    if first is not None and isinstance(value, (list, tuple)):
      raise first       # after every child (and any back edge) was visited
    return value

  run('tolerant-callback-memoized', lambda: daglish.MemoizedTraversal.run(
      tolerant, root), True)
  run('iterate-unmemoized', lambda: list(daglish.iterate(
      root, memoized=False)), False)
  run('collect_paths_by_id', lambda: daglish.collect_paths_by_id(
      root, memoizable_only=True), False)
  res.outcomes['cycle'] += 1


LEAVES = ['L1', CONST_TUPLE]


def _kinds(menu):
  ks = shapes.std_kinds(MENUS[menu])
  return ks, {k.name: k for k in ks}


def run_unit(unit, tier, seed):
  res = core.Result()
  if unit[0] == 'registry_history':
    registry_history(res)
    return res
  if unit[0] == 'pressure':
    for j, root in enumerate(pressure_roots(unit[1])):
      res.states += 1
      res.nontrivial += 1
      check(root, res, {'pressure': unit[1], 'variant': j}, 'pressure')
    res.sample({'pressure': unit[1]})
    return res
  _, menu, n, nl, k = unit[:5]
  special = len(unit) > 5
  ks, byname = _kinds(menu)
  leaves = LEAVES if seed % 2 == 0 else ['M1', CONST_TUPLE]
  for idx, shape in enumerate(shapes.all_shapes(ks, n, nl)):
    if idx % (8 if special else NCHUNK) != k:
      continue
    if special:
      leaves = [bytearray(b'ba'), fdl.NO_VALUE]
    objs = shapes.materialize(shape, byname, leaves)
    root = objs[-1]
    res.states += 1
    res.evals += 1
    case = {'menu': menu, 'shape': shape, 'cycle': None,
            'special_leaves': special}
    shared = check(root, res, case, f'n{len(shape)}')
    if shared:
      res.nontrivial += 1
    if idx % 1499 == 0:
      res.sample({'shape': shape, 'repr': repr(root)[:160]})
    # cyclic variants: one per list/dict node
    for j, (kind, _) in enumerate(shape):
      if kind.startswith(('list', 'dict')) and not kind.startswith('dict0'):
        if special:
          leaves = [bytearray(b'ba'), fdl.NO_VALUE]
        objs2 = shapes.materialize(shape, byname, leaves)
        if type(objs2[j]) not in (list, dict):
          continue
        res.states += 1
        res.nontrivial += 1
        check_cycle(objs2[-1], objs2[j], res,
                    {'menu': menu, 'shape': shape, 'cycle': j})
  return res


def replay(case):
  res = core.Result()
  if 'registry_history' in case:
    registry_history(res)
    return res
  if 'pressure' in case:
    root = list(pressure_roots(case['pressure']))[case['variant']]
    check(root, res, case, 'pressure')
    return res
  ks, byname = _kinds(case['menu'])
  shape = tuple((k, tuple(tuple(s) if isinstance(s, list) else s
                          for s in sl)) for k, sl in case['shape'])
  objs = shapes.materialize(shape, byname, [bytearray(b'ba'), fdl.NO_VALUE]
                            if case.get('special_leaves') else LEAVES)
  print('structure:', objs[-1])
  if case.get('cycle') is not None:
    check_cycle(objs[-1], objs[case['cycle']], res, case)
  else:
    check(objs[-1], res, case, 'replay')
  return res
