"""C09: JSON serialization is lossless or loud, and policy-gated."""
from __future__ import annotations

import collections
import copy
import itertools
import json

import fiddle as fdl
from fiddle.experimental import serialization
from mc import canon
from mc import core
from mc import shapes
import vfx
from vfx import nodes as N
from vfx.pa import common as pa_common
from vfx.pb import common as pb_common

PROP = 'C09'
LEVEL = 'model_checking'
TECHNIQUE = ('bounded-exhaustive enumeration of leaf alphabets (every byte '
             'string up to a length over an escape-prone alphabet, special '
             'floats, big ints, strings), configurations and policy '
             'documents x deny-subsets; round trip compared by canonical form')
RULE = ('(a) every leaf of the alphabets (ints, floats, bool/None, all '
        'strings <=2 over an awkward alphabet, every bytes value <= L over '
        '{\\\\, u, U, x, N, 0, 4, 0xff} plus all 256 single bytes, enums, '
        'slices, sets, named tuples, defaultdicts, NO_VALUE, registered '
        'constant (by identity, and by value equal to primitives), dict-based '
        'object, types, functions), standalone, as an '
        'argument, in a list and as a dict key; (b) every DAG shape up to N '
        'nodes over all Buildable types with tags and shared containers, and '
        'over different callables carrying one name in two modules; (c) '
        'every document of the policy set x every single denied symbol (by '
        'import and by value), in the order permissive-then-strict; distinct '
        'by value/document; non-trivial when the value is not a plain JSON '
        'primitive')
ASSUMPTIONS = [
    '"valid JSON" means json.loads accepts the text (NaN/Infinity tokens are '
    'accepted by it and therefore not judged)',
    'dump_json raising is always acceptable (loud)',
    'the reconstruction is compared by mc.canon: types, leaves by (type, '
    'repr), callables, tags, sharing of lists/dicts/Buildables/sets; dict '
    'order and set order ignored',
    'the second dump is compared after parsing, with the items of set / '
    'frozenset objects sorted and the debug paths of pyref entries ignored',
    'every function/class/enum member/registered constant object found in '
    'the loaded value must have been passed to allows_value and approved, and '
    'the (module, symbol) named in the document approved by allows_import',
]
LEVEL_TEXT = ('Exhaustive within the leaf alphabets and shape bounds: each '
              'value is dumped, parsed, loaded and re-dumped by the real code '
              'and compared with the original; each policy document is loaded '
              'under every single-denial policy.')
LEVEL_NOTE = ('Trusted: mc.canon, the recording policy. Bounds: bytes <= 5 '
              '(quick) / 7 (thorough) over 8 symbols, strings <= 2 over 9 '
              'symbols, shapes N<=2 (+3 reduced).')


def bounds(tier):
  if tier == 'quick':
    return dict(bytes_len=6, n=2, n_small=3)
  return dict(bytes_len=7, n=2, n_small=4)


BYTE_ALPHA = [b'\\', b'u', b'U', b'x', b'N', b'0', b'4', b'\xff']
STR_ALPHA = ['a', '"', '\\', "'", 'é', ' ', '\U0001F600', '\x00',
             '\ud800']
NBYTES_CHUNKS = 24


def units(tier, seed):
  b = bounds(tier)
  out = [('bytes', k) for k in range(NBYTES_CHUNKS)]
  out += [('leaves',), ('policy',)]
  out += [('shapes', k) for k in range(24)]
  return out


# ------------------------------------------------------------ round trip
def strip_paths(doc):
  if isinstance(doc, dict):
    return {k: strip_paths(v) for k, v in sort_sets(doc).items()
            if k != 'paths'}
  if isinstance(doc, list):
    return [strip_paths(v) for v in doc]
  return doc


def sort_sets(doc):
  """Sorts the items of set/frozenset objects in a parsed document."""
  if isinstance(doc, dict):
    t = doc.get('type')
    if t == 'pyref' and 'paths' in doc:
      # the debug "paths" of a pyref record object identity of functions /
      # bound methods, which an import cannot (and need not) reproduce
      doc = {k: v for k, v in doc.items() if k != 'paths'}
      return doc
    if isinstance(t, dict) and t.get('name') in ('set', 'frozenset') and (
        'items' in doc):
      doc = dict(doc)
      doc['items'] = sorted(
          (sort_sets(i) for i in doc['items']), key=lambda i: json.dumps(
              i, sort_keys=True))
      return doc
    return {k: sort_sets(v) for k, v in doc.items()}
  if isinstance(doc, list):
    return [sort_sets(v) for v in doc]
  return doc


def has_set(v, depth=0):
  if isinstance(v, (set, frozenset)):
    return True
  if depth > 6:
    return False
  if isinstance(v, fdl.Buildable):
    return any(has_set(a, depth + 1) for a in v.__arguments__.values())
  if isinstance(v, (list, tuple)):
    return any(has_set(a, depth + 1) for a in v)
  if isinstance(v, dict):
    return any(has_set(a, depth + 1) for a in v.values()) or any(
        has_set(a, depth + 1) for a in v)
  return False


def roundtrip(value, res, case, label):
  """Returns 'loud' / 'ok' / 'violation'."""
  before = canon.canon_cfg(value)
  vfx.reset()
  try:
    text = serialization.dump_json(value)
  except Exception as e:  # pylint: disable=broad-except
    res.outcomes[f'{label}:loud:{type(e).__name__}'] += 1
    return 'loud'
  res.transitions += 1

  def bad(key, msg):
    res.violation(f'C09/{key}/{label}', f'{case}: {msg}', case)
    return 'violation'

  try:
    doc = json.loads(text)
  except Exception as e:  # pylint: disable=broad-except
    return bad('invalid-json', repr(e))
  vfx.reset()
  try:
    back = serialization.load_json(text)
  except Exception as e:  # pylint: disable=broad-except
    return bad('load-raises', f'{type(e).__name__}: {e}; document {text[:300]}')
  res.transitions += 1
  if vfx.LOG:
    return bad('load-invoked-callables', f'{[k for _, k, _ in vfx.LOG]}')
  after = canon.canon_cfg(back)
  if after != before:
    return bad('lossy', f'original {before}\n reconstructed {after}')
  if canon.canon_cfg(value) != before:
    return bad('dump-modified-input', '')
  try:
    text2 = serialization.dump_json(back)
  except Exception as e:  # pylint: disable=broad-except
    return bad('second-dump-raises', repr(e))
  res.transitions += 1
  if text2 != text:
    if sort_sets(json.loads(text2)) != sort_sets(doc) and (
        strip_paths(json.loads(text2)) == strip_paths(doc)) and (
            'vfx.nodes' in text and '"Tmp"' in text):
      # the documents differ only in the debug "paths" recorded for the
      # temporaries that a user-registered traverser creates while flattening
      return bad('second-dump-differs-only-in-debug-paths/temporaries',
                 f'{text[:300]}\n vs {text2[:300]}')
    if sort_sets(json.loads(text2)) != sort_sets(doc):
      return bad('second-dump-differs', f'{text[:400]}\n vs {text2[:400]}')
  res.outcomes[f'{label}:ok'] += 1
  return 'ok'


def wrap_variants(v, hashable=None):
  """The positions a leaf is tried in."""
  yield 'bare', v
  yield 'arg', fdl.Config(N.node, x=v, y=[v])
  try:
    hash(v)
    yield 'key', {v: 1, 'other': v}
    yield 'tuplekey', fdl.Config(N.node, x={(v, 1): 'val'})
  except TypeError:
    pass


def leaf_values():
  out = []
  out += [0, -1, 2**53 + 1, 2**64, -10**40, 10**400]
  out += [0.5, -0.0, 1e308, 5e-324, float('inf'), float('-inf'),
          float('nan'), 1e-320]
  out += [True, False, None]
  for n in range(0, 3):
    for s in itertools.product(STR_ALPHA, repeat=n):
      out.append(''.join(s))
  out += [N.Color.RED, N.Num.TWO]
  for sl in itertools.product((None, 0, -3), repeat=3):
    out.append(slice(*sl))
  out += [set(), {1, 2, 'a'}, frozenset({(1, 2), None}), {N.Color.BLUE}]
  out += [N.Pair(1, [2]), N.Pair(N.Pair(1, 2), ())]
  out += [collections.defaultdict(list, {'a': [1]}),
          collections.defaultdict(None, {1: 2}),
          collections.defaultdict(N.node)]
  # registered by-value constants and the primitives they are equal to
  out += [N.HALF, N.ONE, N.AUTO, 1, 1.0, 'auto', [0.5, N.HALF, 'auto', N.AUTO],
          {0.5: 'half', 'auto': 1, 1: 'one'}]
  # two objects that share module + qualified name in one document, either
  # order; interned dict-based objects
  out += [[N.MakerBase.make, N.MakerSub.make], [N.MakerSub.make,
                                                 N.MakerBase.make],
          [N.node, N.node_wrapped], [N.node_wrapped, N.node],
          [N.InternObj('a', 1), N.InternObj('b', [2])]]
  out += [fdl.NO_VALUE, N.CONST, N.DictObj([1], N.CONST),
          N.DictObj(N.DictObj(1, 2), {'k': 3})]
  out += [int, N.Base, N.node, N.Pair, len, dict, N.Base.__init__,
          N.MakerBase.make, N.MakerSub.make,
          fdl.Config(N.MakerSub.make, x=1), fdl.Partial(N.MakerBase.make)]
  out += [(), (1,), ((1, 2), 'x'), [[]], {}, {'a': {}}, {1: 'int', '1': 'str'},
          {None: 0, True: 1, 1.5: 2, (1, 2): 3, N.Color.RED: 4, b'k': 5,
           frozenset({1}): 6}]
  out += [b'', bytearray(b'ab'), 1j, Ellipsis, NotImplemented, range(3),
          object()]
  return out


def all_bytes(max_len):
  for n in range(1, max_len + 1):
    for t in itertools.product(BYTE_ALPHA, repeat=n):
      yield b''.join(t)


def run_bytes(k, b, res):
  for idx, v in enumerate(itertools.chain(
      (bytes([i]) for i in range(256)), all_bytes(b['bytes_len']))):
    if idx % NBYTES_CHUNKS != k:
      continue
    res.states += 1
    res.evals += 1
    res.nontrivial += 1
    # bare, and as an argument value + dict key
    case = {'bytes': list(v)}
    r = roundtrip(v, res, case, 'bytes')
    if r == 'ok' and idx % 7 == 0:
      roundtrip(fdl.Config(N.node, x=v, y={v: [v]}), res, case, 'bytes-arg')
  res.sample({'bytes_example': repr(b'\\u0041')})


def run_leaves(res):
  vals = leaf_values()
  for i, v in enumerate(vals):
    for pos, w in wrap_variants(v):
      res.states += 1
      res.evals += 1
      res.nontrivial += 1
      case = {'leaf_index': i, 'leaf': repr(v)[:80], 'position': pos}
      roundtrip(w, res, case, f'leaf-{type(v).__name__}')
  res.sample({'leaves': len(vals)})


# ------------------------------------------------------------ shapes
def mk(cls, fn):
  def make(vals):
    kw = {n: v for n, v in zip(('x', 'y'), vals) if v is not shapes.UNSET}
    return cls(fn, **kw)
  return make


def mk_pos(vals):
  c = fdl.Config(N.node_pos)
  p0, a, va0 = vals
  if p0 is not shapes.UNSET:
    c[0] = p0
  if a is not shapes.UNSET:
    c.a = a
  if va0 is not shapes.UNSET:
    c[fdl.VARARGS:] = [va0]
  return c


def kinds():
  K = shapes.Kind
  return {
      'cfg': K('cfg', 2, True, mk(fdl.Config, N.node), True),
      'cls': K('cls', 2, True, mk(fdl.Config, N.Mid), True),
      'par': K('par', 2, True, mk(fdl.Partial, N.node), True),
      'argf': K('argf', 2, True, mk(fdl.ArgFactory, N.node_b), True),
      'pos': K('pos', 3, True, mk_pos, True),
      'tv': K('tv', 1, True, lambda v: (N.TagA.new() if v[0] is shapes.UNSET
                                        else N.TagA.new(v[0])), True),
      'list2': K('list2', 2, False, list),
      'tuple2': K('tuple2', 2, False, tuple),
      'dict2': K('dict2', 2, False, lambda v: {'a': v[0], 3: v[1]}),
      'set1': K('set1', 1, False, lambda v: {('s', 1), 'e'} if not isinstance(
          v[0], str) else {v[0], 'e'}),
      'nt': K('nt', 2, False, lambda v: N.Pair(*v)),
      'ddict1': K('ddict1', 1, False, lambda v: collections.defaultdict(
          list, {'a': v[0]})),
      'dobj': K('dobj', 2, False, lambda v: N.DictObj(*v)),
      'tmp': K('tmp', 2, False, lambda v: N.Tmp(*v)),
      # different callables / classes with the same name in two modules
      'pa_thing': K('pa_thing', 2, True, mk(fdl.Config, pa_common.Thing), True),
      'pb_thing': K('pb_thing', 2, True, mk(fdl.Config, pb_common.Thing), True),
      'pa_make': K('pa_make', 2, True, mk(fdl.Partial, pa_common.make), True),
  }


FULL = ['cfg', 'cls', 'par', 'argf', 'pos', 'tv', 'list2', 'tuple2', 'dict2',
        'set1', 'nt', 'ddict1', 'dobj']
SMALL = ['cfg', 'par', 'list2', 'dict2', 'dobj']
SAMENAME = ['pa_thing', 'pb_thing', 'pa_make', 'list2']
TEMPS = ['cfg', 'tmp', 'list2']
SHAPE_LEAVES = ['L1', N.Color.RED]


def all_shape_cases(b):
  kk = kinds()
  seen = set()
  for menu, n, nl in ([FULL, b['n'], 2], [SMALL, b['n_small'], 1],
                      [SAMENAME, 3, 1], [TEMPS, 3, 1]):
    for s in shapes.all_shapes([kk[m] for m in menu], n, nl):
      if s not in seen:
        seen.add(s)
        yield s


_KK = None


def make_shape(shape, tagged):
  global _KK
  if _KK is None:
    _KK = kinds()
  objs = shapes.materialize(shape, _KK, SHAPE_LEAVES)
  if tagged:
    for i, o in enumerate(objs):
      if isinstance(o, fdl.Buildable) and type(o).__name__ != (
          'TaggedValueCls'):
        p = list(o.__signature_info__.signature.parameters.values())
        if p[0].kind == p[0].POSITIONAL_ONLY:
          fdl.add_tag(o, 0, N.TagB)
          fdl.add_tag(o, 'a', N.TagC)
        else:
          fdl.add_tag(o, 'x', N.TagA)
          fdl.add_tag(o, 'y', N.TagB)
          fdl.add_tag(o, 'y', N.TagC)
  return objs[-1]


def run_shapes(k, b, res):
  for idx, shape in enumerate(all_shape_cases(b)):
    if idx % 24 != k:
      continue
    for tagged in (False, True):
      v = make_shape(shape, tagged)
      res.states += 1
      res.evals += 1
      if len(shape) > 1:
        res.nontrivial += 1
      case = {'shape': shape, 'tagged': tagged}
      roundtrip(v, res, case, 'shape')
    if idx % 997 == 0:
      res.sample({'shape': shape, 'value': repr(make_shape(shape, True))[:200]})


# ------------------------------------------------------------ policy
class RecPolicy(serialization.PyrefPolicy):

  deny_with_none = False

  def __init__(self, deny_import=(), deny_value=()):
    self.deny_import = set(deny_import)
    self.deny_value = list(deny_value)       # objects, by identity
    self.asked_import = []
    self.approved_values = []
    self.denied_values = []

  def allows_import(self, module, symbol):
    ok = (module, symbol) not in self.deny_import
    self.asked_import.append((module, symbol, ok))
    return ok

  def allows_value(self, value):
    ok = not any(value is d for d in self.deny_value)
    (self.approved_values if ok else self.denied_values).append(value)
    if self.deny_with_none:
      return True if ok else None      # "not approved" spelled as None
    return ok


def doc_pyrefs(doc, out=None):
  out = [] if out is None else out
  if isinstance(doc, dict):
    if doc.get('type') == 'pyref' and 'module' in doc and 'name' in doc:
      out.append((doc['module'], doc['name']))
    for v in doc.values():
      doc_pyrefs(v, out)
  elif isinstance(doc, list):
    for v in doc:
      doc_pyrefs(v, out)
  return out


def resolved_symbols(v, out=None, seen=None):
  """Python symbols a loaded value refers to (callables, types, tags, enum
  members, constants)."""
  import enum  # pylint: disable=g-import-not-at-top
  import types  # pylint: disable=g-import-not-at-top
  out = [] if out is None else out
  seen = set() if seen is None else seen
  if id(v) in seen:
    return out
  seen.add(id(v))
  if isinstance(v, fdl.Buildable):
    out.append(v.__fn_or_cls__)
    out.append(type(v))
    for ts in v.__argument_tags__.values():
      out.extend(ts)
    for a in v.__arguments__.values():
      resolved_symbols(a, out, seen)
  elif isinstance(v, (type, types.FunctionType, types.BuiltinFunctionType,
                      types.MethodType)):
    out.append(v)
  elif isinstance(v, enum.Enum) or v is N.CONST:
    out.append(v)
  elif isinstance(v, (list, tuple, set, frozenset)):
    if canon.is_namedtuple(v):
      out.append(type(v))
    for a in v:
      resolved_symbols(a, out, seen)
  elif isinstance(v, dict):
    if isinstance(v, collections.defaultdict) and v.default_factory:
      out.append(v.default_factory)
    for k, a in v.items():
      resolved_symbols(k, out, seen)
      resolved_symbols(a, out, seen)
  elif isinstance(v, N.DictObj):
    out.append(type(v))
    for a in v.__dict__.values():
      resolved_symbols(a, out, seen)
  return out


def policy_docs():
  """(name, json text) documents."""
  cfgs = {
      'config': fdl.Config(N.node, x=fdl.Partial(N.Mid, x=N.Color.RED),
                           y=[N.Pair(1, N.node_b), N.CONST]),
      'tags': (lambda c: (fdl.add_tag(c, 'x', N.TagA), c)[1])(
          fdl.Config(N.Leaf, x=collections.defaultdict(list))),
      'dictobj': fdl.Config(N.node, x=N.DictObj(N.Num.ONE, N.Base),
                            y={N.Color.BLUE: frozenset({N.Num.TWO})}),
      'shared': (lambda s: fdl.Config(N.node, x=[s, s], y=(s,)))(
          fdl.ArgFactory(N.Other, x=1)),
  }
  docs = {k: serialization.dump_json(v) for k, v in cfgs.items()}
  # hand-made: a builtin in value position, in type position, behind a ref,
  # in metadata; the migrated symbol fiddle._src.config:Partial
  base = json.loads(docs['config'])
  d = copy.deepcopy(base)
  d['objects']['evil'] = {'type': 'pyref', 'module': 'builtins',
                          'name': 'eval'}
  k0 = next(iter(d['objects']))
  docs['builtin_eval_value'] = json.dumps({
      'root': {'type': 'pyref', 'module': 'builtins', 'name': 'eval'},
      'objects': {}, 'refcounts': {}, 'version': base['version']})
  docs['builtin_in_list'] = json.dumps({
      'root': {'type': {'type': 'pyref', 'module': 'builtins',
                        'name': 'list'},
               'items': [['Index(index=0)', {
                   'type': 'pyref', 'module': 'os', 'name': 'system'}]],
               'metadata': None},
      'objects': {}, 'refcounts': {}, 'version': base['version']})
  docs['behind_ref'] = json.dumps({
      'root': {'type': 'ref', 'key': 'k'},
      'objects': {'k': {'type': {'type': 'pyref', 'module': 'builtins',
                                 'name': 'tuple'},
                        'items': [['Index(index=0)', {
                            'type': 'pyref', 'module': 'vfx.nodes',
                            'name': 'node'}]],
                        'metadata': None}},
      'refcounts': {'k': 1}, 'version': base['version']})
  migrated = docs['config'].replace('"module": "fiddle._src.partial", "name": '
                                    '"Partial"',
                                    '"module": "fiddle._src.config", "name": '
                                    '"Partial"')
  docs['migrated_partial'] = migrated
  return docs


def run_policy(res):
  docs = policy_docs()
  for name, text in docs.items():
    doc = json.loads(text)
    refs = sorted(set(doc_pyrefs(doc)))
    case = {'document': name}
    # 1. permissive recording policy
    pol = RecPolicy()
    vfx.reset()
    try:
      out = serialization.load_json(text, pyref_policy=pol)
      loaded = True
    except Exception as e:  # pylint: disable=broad-except
      loaded = False
      out = None
    res.transitions += 1
    res.states += 1
    res.nontrivial += 1
    if loaded:
      if vfx.LOG:
        res.violation('C09/load-invoked-callables/policy', f'{case}', case)
      syms = resolved_symbols(out)
      for s in syms:
        if not any(s is a or (s == a and type(s) is type(a))
                   for a in pol.approved_values):
          res.violation(
              'C09/symbol-not-approved-by-allows_value',
              f'{case}: {s!r} is part of the loaded value but allows_value '
              f'was never asked about it', case)
          break
      asked = {(m, s) for m, s, _ in pol.asked_import}
      missing = [r for r in refs if r not in asked]
      if missing:
        res.violation('C09/symbol-not-approved-by-allows_import',
                      f'{case}: {missing}', case)
    # default policy on documents naming builtins must refuse
    if name in ('builtin_eval_value', 'builtin_in_list'):
      try:
        got = serialization.load_json(text)
        res.violation('C09/default-policy-loaded-builtin',
                      f'{case}: returned {got!r}', case)
      except Exception:  # pylint: disable=broad-except
        pass
    # 2. every single denial, after the permissive load (ordering matters
    #    for anything cached across loads)
    imported = {}
    for (m, s) in refs:
      try:
        imported[(m, s)] = serialization.import_symbol(RecPolicy(), m, s)
      except Exception:  # pylint: disable=broad-except
        pass
    for (m, s) in refs:
      for how in ('import', 'value', 'value-none'):
        if how != 'import' and (m, s) not in imported:
          continue
        pol = RecPolicy(deny_import=[(m, s)] if how == 'import' else (),
                        deny_value=[imported[(m, s)]] if how != 'import' else ())
        pol.deny_with_none = how == 'value-none'
        res.transitions += 1
        res.states += 1
        try:
          got = serialization.load_json(text, pyref_policy=pol)
        except Exception as e:  # pylint: disable=broad-except
          res.outcomes[f'policy:denied-{how}:raised'] += 1
          continue
        res.violation(
            f'C09/denied-symbol-loaded/{how}',
            f'{case}: ({m}, {s}) was denied by allows_{how} but load_json '
            f'returned {got!r}', dict(case, denied=[m, s], how=how))
  res.sample({'policy_documents': list(docs)})


def run_unit(unit, tier, seed):
  b = bounds(tier)
  res = core.Result()
  if unit[0] == 'bytes':
    run_bytes(unit[1], b, res)
  elif unit[0] == 'leaves':
    run_leaves(res)
  elif unit[0] == 'policy':
    run_policy(res)
  else:
    run_shapes(unit[1], b, res)
  return res


def _shape(x):
  return tuple((k, tuple(tuple(s) if isinstance(s, list) else s for s in sl))
               for k, sl in x)


def replay(case):
  res = core.Result()
  if 'bytes' in case:
    v = bytes(case['bytes'])
    print('value:', v, ' dumped:', serialization.dump_json(v)[:200])
    print('reloaded:', serialization.load_json(serialization.dump_json(v)))
    roundtrip(v, res, case, 'bytes')
  elif 'leaf_index' in case:
    v = leaf_values()[case['leaf_index']]
    for pos, w in wrap_variants(v):
      if pos == case['position']:
        roundtrip(w, res, case, 'leaf')
  elif 'shape' in case:
    roundtrip(make_shape(_shape(case['shape']), case['tagged']), res, case,
              'shape')
  else:
    run_policy(res)
  return res
