"""C10: applying build_diff(old, new) to old yields new."""
from __future__ import annotations

import collections
import copy
import itertools

import fiddle as fdl
from fiddle import diffing
from mc import canon
from mc import core
from mc import shapes
from vfx import nodes as N

PROP = 'C10'
LEVEL = 'model_checking'
TECHNIQUE = ('bounded-exhaustive enumeration of a closed family of '
             'configurations: every ordered pair (old, new) with equal root '
             'type, pairs sharing objects by identity, and every chain of k '
             'edits; real build_diff + apply_diff compared by canonical form')
RULE = ('family of DAG shapes over {Config of three callables incl. **kwargs '
        'and positional parameters, Partial, list, tuple, dict} with / '
        'without tags; all ordered pairs with the same root Buildable type; '
        'new built around sub-objects of old (identity sharing); new = '
        'deepcopy(old) + every chain of <= k edits from {value change, '
        'callable swap, argument add/remove, tag add/remove, alias created, '
        'alias broken, subtree moved, base tag removed from an argument that '
        'also carries its subclass}; non-trivial when old and new differ')
ASSUMPTIONS = [
    'equality is by mc.canon: callables, arguments, tags, sharing of '
    'Buildables/lists/dicts (tuple identity ignored)',
    'the diff is compared before/after by its printed form and the canonical '
    'form of its new_shared_values',
]
LEVEL_TEXT = ('build_diff/apply_diff are executed on every ordered pair of a '
              'closed bounded family and on every bounded edit chain; result, '
              'root identity and immutability of diff/new/old are checked.')
LEVEL_NOTE = ('Trusted: mc.canon. Bounds: family of a few hundred shapes x '
              'tag variants (quick); plus a family with two distinct leaves and '
              'all tag variants (thorough); edit chains <= 2.')


def mk(cls, fn):
  def make(vals):
    kw = {n: v for n, v in zip(('x', 'y'), vals) if v is not shapes.UNSET}
    return cls(fn, **kw)
  return make


def mk_kw(vals):
  kw = {n: v for n, v in zip(('x', 'extra'), vals) if v is not shapes.UNSET}
  return fdl.Config(N.node_kw, **kw)


def mk_pos(vals):
  c = fdl.Config(N.node_pos)
  p0, va0 = vals
  if p0 is not shapes.UNSET:
    c[0] = p0
  if va0 is not shapes.UNSET:
    c[fdl.VARARGS:] = [va0]
  return c


def kinds():
  K = shapes.Kind
  return {
      'cfg': K('cfg', 2, True, mk(fdl.Config, N.node), True),
      'cfgb': K('cfgb', 2, True, mk(fdl.Config, N.node_b), True),
      'ckw': K('ckw', 2, True, mk_kw, True),
      'cpos': K('cpos', 2, True, mk_pos, True),
      'par': K('par', 2, True, mk(fdl.Partial, N.node), True),
      'list2': K('list2', 2, False, list),
      'list1': K('list1', 1, False, list),
      'tuple2': K('tuple2', 2, False, tuple),
      'dict1': K('dict1', 1, False, lambda v: {'k': v[0]}),
      'dict0': K('dict0', 0, False, lambda v: {}),
      'list0': K('list0', 0, False, lambda v: []),
  }


ROOTS = ['cfg', 'cfgb', 'ckw', 'cpos', 'par']
FAMILIES = {
    'A': (['cfg', 'ckw', 'par', 'list2', 'tuple2', 'dict1', 'dict0', 'list0'],
          2, 1),
    'P': (['cpos', 'cfg', 'list1'], 2, 1),
    'S3': (['cfg', 'list2'], 3, 1),
    'B': (['cfg', 'cfgb', 'ckw', 'par', 'list2', 'tuple2', 'dict1', 'dict0',
           'list0'], 2, 2),
    'B2': (['cfg', 'ckw', 'par', 'list2', 'tuple2', 'dict1'], 2, 2),
}
LEAVES = ['L1', 'L2']
NCHUNK = 32


def bounds(tier):
  if tier == 'quick':
    return dict(families=['A', 'P', 'S3'], edits=2)
  return dict(families=['A', 'B2', 'P', 'S3'], edits=2)


def units(tier, seed):
  b = bounds(tier)
  out = []
  for f in b['families']:
    out += [('pairs', f, k) for k in range(NCHUNK)]
  out += [('identity', f) for f in b['families']]
  out += [('edits', k) for k in range(NCHUNK)]
  return out


_KK = None


def family(name):
  global _KK
  if _KK is None:
    _KK = kinds()
  menu, n, nl = FAMILIES[name]
  return list(shapes.all_shapes([_KK[m] for m in menu], n, nl,
                                root_kinds=ROOTS))


def make(shape, tagged=False):
  objs = shapes.materialize(shape, _KK, LEAVES)
  if tagged:
    for i, o in enumerate(objs):
      if isinstance(o, fdl.Buildable):
        names = _named(o)
        if names:
          # even nodes carry a tag and its subclass on one argument
          fdl.add_tag(o, names[0], N.TagA if i % 2 else N.TagB)
          if i % 2 == 0:
            fdl.add_tag(o, names[0], N.TagA)
          fdl.add_tag(o, names[-1], N.TagC)
  return objs[-1]


def _named(b):
  return [n for n, p in b.__signature_info__.signature.parameters.items()
          if p.kind in (p.POSITIONAL_OR_KEYWORD, p.KEYWORD_ONLY)]


def classify(old, new):
  def has(v, pred, seen=None):
    seen = set() if seen is None else seen
    if id(v) in seen:
      return False
    seen.add(id(v))
    if pred(v):
      return True
    if isinstance(v, fdl.Buildable):
      return any(has(a, pred, seen) for a in v.__arguments__.values())
    if isinstance(v, (list, tuple)):
      return any(has(a, pred, seen) for a in v)
    if isinstance(v, dict):
      return any(has(a, pred, seen) for a in v.values())
    return False
  posn = lambda v: isinstance(v, fdl.Buildable) and any(
      isinstance(k, int) for k in v.__arguments__)
  tup = lambda v: isinstance(v, tuple) and len(v) > 0
  if has(old, posn) or has(new, posn):
    return 'positional-argument'
  if has(old, tup) and has(new, tup):
    return 'tuple'
  return 'plain'


def check_pair(old_mk, new_mk, res, case, label):
  """old_mk/new_mk: thunks creating (old, new) -- called once."""
  old, new = old_mk_new(old_mk, new_mk)
  c_new = canon.canon_cfg(new)
  c_old = canon.canon_cfg(old)
  cls = classify(old, new)
  res.transitions += 1
  try:
    diff = diffing.build_diff(old, new)
  except Exception as e:  # pylint: disable=broad-except
    res.violation(f'C10/build_diff-raises/{cls}/{type(e).__name__}',
                  f'{case}: old {old!r}\n new {new!r}\n {type(e).__name__}: '
                  f'{e}', case)
    return
  if canon.canon_cfg(old) != c_old or canon.canon_cfg(new) != c_new:
    res.violation(f'C10/build_diff-modified-inputs/{cls}', f'{case}', case)
    return
  d_str = str(diff)
  d_shared = canon.canon_cfg(list(diff.new_shared_values))
  target = copy.deepcopy(old)
  root = target
  res.transitions += 1
  try:
    diffing.apply_diff(diff, target)
  except Exception as e:  # pylint: disable=broad-except
    res.violation(f'C10/apply_diff-raises/{cls}/{type(e).__name__}',
                  f'{case}: old {old!r}\n new {new!r}\n diff {diff}\n '
                  f'{type(e).__name__}: {e}', case)
    return
  got = canon.canon_cfg(target)
  res.outcomes[f'{label}:{cls}:{"same" if c_old == c_new else "differs"}'] += 1
  if got != c_new:
    res.violation(
        f'C10/result-differs-from-new/{cls}',
        f'{case}: old {old!r}\n new {new!r}\n diff {diff}\n result '
        f'{target!r}', case)
    return
  if target is not root:
    res.violation('C10/root-identity', f'{case}', case)
  if str(diff) != d_str or canon.canon_cfg(
      list(diff.new_shared_values)) != d_shared:
    res.violation(f'C10/apply_diff-modified-the-diff/{cls}',
                  f'{case}: before {d_str}\n after {diff}', case)
    return
  if canon.canon_cfg(new) != c_new:
    res.violation(f'C10/apply_diff-modified-new/{cls}', f'{case}', case)
    return
  if canon.canon_cfg(old) != c_old:
    res.violation(f'C10/apply_diff-modified-old/{cls}', f'{case}', case)


def old_mk_new(old_mk, new_mk):
  old = old_mk()
  new = new_mk(old)
  return old, new


def run_pairs(fam, k, res):
  shp = family(fam)
  variants = variants_of(fam)
  for i in range(k, len(variants), NCHUNK):
    so, to = variants[i]
    res.states += 1
    for j, (sn, tn) in enumerate(variants):
      if so[-1][0] == 'par' and sn[-1][0] != 'par':
        continue
      if so[-1][0] != 'par' and sn[-1][0] == 'par':
        continue
      res.evals += 1
      if i != j:
        res.nontrivial += 1
      case = {'family': fam, 'old': so, 'old_tagged': to, 'new': sn,
              'new_tagged': tn}
      check_pair(lambda: make(so, to), lambda old: make(sn, tn), res, case,
                 'pair')
    if i % 97 == 0:
      res.sample({'family': fam, 'old': repr(make(so, to))[:120]})
  # diff with a deep copy is empty
  variants = [(s_, t_) for s_ in shp for t_ in (False, True)]
  for i in range(k, len(variants), NCHUNK):
    so, to = variants[i]
    c = make(so, to)
    try:
      d = diffing.build_diff(c, copy.deepcopy(c))
    except Exception:  # pylint: disable=broad-except
      continue  # judged above
    res.transitions += 1
    if d.changes or d.new_shared_values:
      res.violation('C10/diff-with-deepcopy-not-empty',
                    f'{so}: {d}', {'family': fam, 'old': so, 'old_tagged': to,
                                   'new': so, 'new_tagged': to})


TAG_ALL = False


def variants_of(fam):
  """Untagged shapes, plus tagged variants (all of them in the thorough tier,
  only the one- and two-node shapes of small families in the quick tier)."""
  shp = family(fam)
  out = [(s_, False) for s_ in shp]
  for s_ in shp:
    if TAG_ALL or (len(s_) == 1) or (fam == 'P'):
      out.append((s_, True))
  return out


def sub_objects(cfg):
  out = []
  seen = set()

  def walk(v, top):
    if id(v) in seen:
      return
    seen.add(id(v))
    if not top and isinstance(v, (fdl.Buildable, list, dict)):
      out.append(v)
    if isinstance(v, fdl.Buildable):
      for a in v.__arguments__.values():
        walk(a, False)
    elif isinstance(v, (list, tuple)):
      for a in v:
        walk(a, False)
    elif isinstance(v, dict):
      for a in v.values():
        walk(a, False)

  walk(cfg, True)
  return out


def identity_news(old):
  """Configurations built around sub-objects of `old` (shared by identity)."""
  subs = sub_objects(old)
  T = type(old)
  fn = N.node
  yield 'wrap-old', lambda o: T(fn, x=o, y='w') if False else None
  for i, s in enumerate(subs):
    yield f'sub{i}-as-x', (lambda o, i=i: T(fn, x=sub_objects(o)[i]))
    yield f'sub{i}-twice', (lambda o, i=i: T(fn, x=sub_objects(o)[i],
                                             y=[sub_objects(o)[i]]))
    yield f'sub{i}-and-old-arg', (lambda o, i=i: T(
        fn, x=sub_objects(o)[i], y=copy.deepcopy(o)))
    if isinstance(s, T):
      yield f'sub{i}-is-new-root', (lambda o, i=i: sub_objects(o)[i])
  yield 'swap-args', _swap


def _swap(o):
  names = _named(o)
  n = type(o)(o.__fn_or_cls__)
  vals = [o.__arguments__.get(k) for k in names[:2]]
  if len(names) >= 2 and vals[0] is not None and vals[1] is not None:
    setattr(n, names[0], vals[1])
    setattr(n, names[1], vals[0])
    return n
  return None


def run_identity(fam, res):
  shp = family(fam)
  for so in shp:
    res.states += 1
    for name, mk_new in identity_news(make(so)):
      probe = mk_new(make(so))
      if probe is None:
        continue
      res.evals += 1
      res.nontrivial += 1
      case = {'family': fam, 'old': so, 'identity_variant': name}
      check_pair(lambda: make(so), mk_new, res, case, 'identity')
  res.sample({'family': fam, 'identity_pairs': True})


# ------------------------------------------------------------ edit chains
def edit_ops(cfg):
  """Edits applicable to a config (as (name, fn(cfg)) on a deep copy)."""
  ops = []
  bs = [cfg] + [s for s in sub_objects(cfg) if isinstance(s, fdl.Buildable)]
  for bi, _ in enumerate(bs[:2]):
    def get(c, bi=bi):
      allb = [c] + [s for s in sub_objects(c) if isinstance(s, fdl.Buildable)]
      return allb[bi] if bi < len(allb) else None
    ops.append((f'b{bi}.set-x', lambda c, g=get: _do(g(c), lambda n: setattr(
        n, _named(n)[0], 'EDIT'))))
    ops.append((f'b{bi}.del-x', lambda c, g=get: _do(g(c), lambda n: delattr(
        n, _named(n)[0]))))
    ops.append((f'b{bi}.swap-callable', lambda c, g=get: _do(
        g(c), lambda n: fdl.update_callable(
            n, N.node_b if n.__fn_or_cls__ is N.node else N.node))))
    ops.append((f'b{bi}.retarget-to-narrower-callable', lambda c, g=get: _do(
        g(c), _retarget)))
    ops.append((f'b{bi}.to-annotated-callable-without-its-tag',
                lambda c, g=get: _do(g(c), _to_annotated_untagged)))
    ops.append((f'b{bi}.containers-to-subclass-instances',
                lambda c, g=get: _do(g(c), _to_subclass_instances)))
    ops.append((f'b{bi}.add-tag', lambda c, g=get: _do(
        g(c), lambda n: fdl.add_tag(n, _named(n)[0], N.TagC))))
    ops.append((f'b{bi}.remove-base-tag', lambda c, g=get: _do(
        g(c), lambda n: fdl.remove_tag(n, _named(n)[0], N.TagA))))
    ops.append((f'b{bi}.clear-tags', lambda c, g=get: _do(
        g(c), lambda n: fdl.clear_tags(n, _named(n)[0]))))
    ops.append((f'b{bi}.alias-y-to-x', lambda c, g=get: _do(
        g(c), lambda n: setattr(n, _named(n)[1], getattr(n, _named(n)[0])))))
    ops.append((f'b{bi}.break-alias', lambda c, g=get: _do(
        g(c), lambda n: setattr(n, _named(n)[1], copy.deepcopy(
            getattr(n, _named(n)[1]))))))
    ops.append((f'b{bi}.new-shared', lambda c, g=get: _do(
        g(c), lambda n: _new_shared(n))))
  ops.append(('root.move-x-to-y', lambda c: _do(c, _move)))
  # new shared values that reference each other, in every name order
  for order in SHARED_ORDERS:
    ops.append((f'root.new-shared-chain-{"-".join(c.__name__ for c in order)}',
                lambda c, order=order: _do(c, lambda n: _shared_chain(
                    n, order))))
  return ops


SHARED_ORDERS = [
    (N.Base, N.Other), (N.Other, N.Base), (N.Base, N.Mid, N.Other),
    (N.Other, N.Mid, N.Base), (N.Mid, N.Other, N.Base),
]


def _shared_chain(n, order):
  """order[0] references order[1] references ... ; each used twice so that
  every one of them becomes a new shared value."""
  inner = None
  chain = []
  for cls in reversed(order):
    inner = fdl.Config(cls, x=inner if inner is not None else 'leaf')
    chain.append(inner)
  names = _named(n)
  setattr(n, names[0], list(chain) + [chain[-1]])
  setattr(n, names[1], {'again': list(chain)})


def _retarget(n):
  """Switches to a callable that lacks the last parameter; its value and tags
  go away with it."""
  if n.__fn_or_cls__ not in (N.node, N.node_b):
    raise LookupError('not applicable')
  fdl.clear_tags(n, 'y')
  fdl.update_callable(n, N.only_x, drop_invalid_args=True)


def _to_annotated_untagged(n):
  """Switches to a callable whose parameter has an annotation tag; the new
  configuration does not carry that tag."""
  if n.__fn_or_cls__ not in (N.node, N.node_b):
    raise LookupError('not applicable')
  fdl.update_callable(n, N.node_tagged)
  fdl.clear_tags(n, 'x')


def _to_subclass_instances(n):
  """Replaces container arguments by equal instances of a subclass of their
  type (dict -> OrderedDict, 2-tuple -> named tuple)."""
  done = False
  for k, v in list(n.__arguments__.items()):
    if type(v) is dict and all(isinstance(e, (str, int)) for e in v.values()):
      # (an OrderedDict is an opaque leaf for daglish: only with leaf values)
      n.__arguments__[k] = collections.OrderedDict(v)
      done = True
    elif type(v) is tuple and len(v) == 2:
      n.__arguments__[k] = N.Pair(*v)
      done = True
  if not done:
    raise LookupError('not applicable')


def _new_shared(n):
  s = fdl.Config(N.node_b, x='NEW')
  names = _named(n)
  setattr(n, names[0], [s, s])
  setattr(n, names[1], fdl.Config(N.node, x=s, y={'k': s}))


def _move(n):
  names = _named(n)
  v = getattr(n, names[0])
  delattr(n, names[0])
  setattr(n, names[1], v)


def _do(node, f):
  if node is None:
    raise LookupError('no such node')
  f(node)


def run_edits(k, b, res):
  shp = family('A' if 'A' in b['families'] else 'B') + family('S3')
  idx = -1
  for so in shp:
    for tagged in ((False, True) if TAG_ALL or len(so) == 1 else (False,)):
      idx += 1
      if idx % NCHUNK != k:
        continue
      res.states += 1
      nops = len(edit_ops(make(so, tagged)))
      for ln in range(1, b['edits'] + 1):
        if ln > 1 and not TAG_ALL and len(so) > 2:
          continue     # quick tier: longer chains on shapes of <= 2 nodes
        for seq in itertools.product(range(nops), repeat=ln):
          def mk_new(old, seq=seq):
            new = copy.deepcopy(old)
            ops = edit_ops(new)
            for i in seq:
              try:
                ops[i][1](new)
              except Exception:  # pylint: disable=broad-except
                return None
            return new
          if mk_new(make(so, tagged)) is None:
            res.counters['edit_chain_not_applicable'] += 1
            continue
          res.evals += 1
          res.nontrivial += 1
          names = [edit_ops(make(so, tagged))[i][0] for i in seq]
          case = {'family': 'edits', 'old': so, 'old_tagged': tagged,
                  'edits': list(seq), 'edit_names': names}
          check_pair(lambda: make(so, tagged), mk_new, res, case, 'edits')
  res.sample({'edit_chains_up_to': b['edits']})


def run_unit(unit, tier, seed):
  global TAG_ALL
  b = bounds(tier)
  TAG_ALL = tier != 'quick'
  res = core.Result()
  family('S3')
  if unit[0] == 'pairs':
    run_pairs(unit[1], unit[2], res)
  elif unit[0] == 'identity':
    run_identity(unit[1], res)
  else:
    run_edits(unit[1], b, res)
  return res


def _shape(x):
  return tuple((k, tuple(tuple(s) if isinstance(s, list) else s for s in sl))
               for k, sl in x)


def replay(case):
  res = core.Result()
  family('S3')
  so = _shape(case['old'])
  if 'identity_variant' in case:
    for name, mk_new in identity_news(make(so)):
      if name == case['identity_variant']:
        check_pair(lambda: make(so), mk_new, res, case, 'identity')
  elif 'edits' in case:
    def mk_new(old):
      new = copy.deepcopy(old)
      ops = edit_ops(new)
      for i in case['edits']:
        ops[i][1](new)
      return new
    check_pair(lambda: make(so, case['old_tagged']), mk_new, res, case,
               'edits')
  else:
    sn = _shape(case['new'])
    check_pair(lambda: make(so, case['old_tagged']),
               lambda old: make(sn, case['new_tagged']), res, case, 'pair')
  for v in res.violations:
    print(v['what'][:1500])
  return res
