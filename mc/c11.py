"""C11: auto_config: building as_buildable() equals calling the function."""
from __future__ import annotations

import functools
import itertools
import linecache
import sys
import types

import fiddle as fdl
from fiddle import arg_factory
from fiddle.experimental import auto_config
from mc import canon
from mc import core
import vfx
from vfx import acfg
from vfx import nodes as N

PROP = 'C11'
LEVEL = 'model_checking'
TECHNIQUE = ('bounded-exhaustive program enumeration: every program of a '
             'small grammar is emitted as source, decorated by the real '
             'auto_config, and fn(*args) is compared with '
             'fdl.build(fn.as_buildable(*args))')
RULE = ('programs "def prog(a, b=..): [v0 = E;] [v1 = E;] return E" with E '
        'over {parameter, literal, local variable (sharing), closure variable, '
        'call of function/class with keyword / positional / *splat / **splat '
        'arguments, list/tuple/dict literal, functools.partial (also chained), '
        'arg_factory.partial, call of auto_config functions (inlined, '
        'always_inline=False, auto_unconfig), exempt(F)(..), with_tags, '
        'builtin call, one method as bound method and as plain function} up '
        'to a call-node budget; a custom exemption policy that also covers '
        'functools.partial / auto_config helpers; function forms: def, nested '
        'def with closure cells whose names sort before/between/after the '
        'handler cells, lambda, staticmethod, classmethod; control-flow '
        'templates (if / for / comprehension / conditional expression) with '
        'the option on; each program runs on every argument tuple; a program '
        'is non-trivial when it contains >= 2 call nodes or a local variable')
ASSUMPTIONS = [
    'programs rejected at decoration time are outside the supported subset: '
    'counted, never judged',
    'partial objects are compared by what they return when called without '
    'arguments (wrapping differs legitimately: arg_factory.partial vs '
    'functools.partial around it)',
    'arguments of exempt(F)(..) are restricted to parameters/literals '
    '(passing Buildables into an exempted callable is not supported use)',
    'argument values are immutable: a mutable argument passed through an '
    'auto_unconfig helper is copied by the helper\'s own build when called '
    'directly, which legitimately changes aliasing',
    'programs are decorated with experimental_result_must_contain_buildable='
    'False so that exempt-only results are in domain',
]
LEVEL_TEXT = ('Every program of the bounded grammar is rewritten by the real '
              'auto_config and executed both ways on every argument tuple; '
              'results (values, types, sharing), the invocation log during '
              'as_buildable and the decorated direct call are compared.')
LEVEL_NOTE = ('Trusted: program generator, mc.canon, vfx recording callables. '
              'Bounds: <= 3 call nodes (quick) / 4 (thorough), <= 2 locals.')


def bounds(tier):
  if tier == 'quick':
    return dict(budget=3, budget_with_local=3)
  return dict(budget=4, budget_with_local=3)


# ------------------------------------------------------------ grammar
ATOMS = ['a', 'b', "'lit'"]


def exprs(budget, names, allow_partial=True):
  """Yields (source, call_nodes_used)."""
  for at in ATOMS + list(names):
    yield at, 0
  if budget <= 0:
    return
  subs = list(exprs(budget - 1, names))
  subs0 = [(s, 0) for s in ATOMS]   # exempt(): parameters and literals only
  for s, n in subs:
    yield f'N.node(x={s})', n + 1
    yield f'N.Mid({s})', n + 1
    yield f'N.node_pos({s}, *[{s}], k=1)', n + 1
    yield f"N.node_kw(**{{'x': {s}, 'z': 2}})", n + 1
    yield f'[{s}, 0]', n
    yield f'({s},)', n
    yield f"{{'k': {s}}}", n
    if allow_partial:
      yield f'functools.partial(N.node, x={s})', n + 1
      yield (f'functools.partial(functools.partial(N.node, x={s}), y=3)',
             n + 1)
    yield f'acfg.helper_inline({s})', n + 1
    yield f'acfg.helper_noinline({s})', n + 1
    yield f'acfg.helper_unconfig({s})', n + 1
    yield f'N.node(x=auto_config.with_tags({s}, N.TagA))', n + 1
    yield f'N.node(x=len([{s}]), y=list(({s},)))', n + 1
  for s, n in subs0:
    yield f'auto_config.exempt(N.node_b)(x={s})', 1
  yield 'arg_factory.partial(N.node, x=N.node_b)', 1
  yield 'functools.partial(N.Mid)', 1          # nothing bound
  yield 'N.node(x=functools.partial(N.node_b), y=functools.partial(N.node_b))', 2
  yield 'arg_factory.partial(N.node, x=functools.partial(N.node_b, x=a))', 1
  yield ("arg_factory.partial(N.node, x=functools.partial(N.node_pos, a, 'p2'"
         ", 'v1'))"), 1
  yield 'arg_factory.partial(N.node_pos, N.node_b, k=N.node)', 1
  yield 'arg_factory.partial(N.node_pos, N.node_b, N.Mid, k=N.node, j=N.Leaf)', 1
  # two sub-expressions
  if budget >= 2:
    small = [s for s in exprs(budget - 2, names) if s[1] <= budget - 2]
    one = [s for s in exprs(1, names) if s[1] <= 1]
    for (s1, n1), (s2, n2) in itertools.product(one, small):
      if n1 + n2 + 1 <= budget:
        yield f'N.node(x={s1}, y={s2})', n1 + n2 + 1
        yield f'N.Other({s1}, y=[{s2}, {s1}])', n1 + n2 + 1


def programs(b):
  """Yields (kind, source). Every program defines `prog`."""
  seen = set()

  def emit(kind, src):
    if src not in seen:
      seen.add(src)
      return [(kind, src)]
    return []

  hdr = "def prog(a, b='bd'):\n"
  # no locals
  for e, n in exprs(b['budget'], ()):
    if n == 0:
      continue
    for p in emit('plain', f'{hdr}  return {e}\n'):
      yield p
  # one / two locals (sharing)
  for e0, n0 in exprs(1, ()):
    if n0 == 0:
      continue
    for e1, n1 in exprs(b['budget_with_local'] - 1, ('v0',)):
      if 'v0' not in e1:
        continue
      for p in emit('local', f'{hdr}  v0 = {e0}\n  return {e1}\n'):
        yield p
    for e1, n1 in exprs(1, ('v0',)):
      if 'v0' not in e1 or n1 == 0:
        continue
      for e2 in ('N.node(x=v0, y=v1)', '[v1, v0, v1]',
                 "N.Other(x={'p': v1}, y=(v0, v1))"):
        for p in emit('local2',
                      f'{hdr}  v0 = {e0}\n  v1 = {e1}\n  return {e2}\n'):
          yield p
  # function forms around a fixed set of bodies
  bodies = [e for e, n in exprs(1, ()) if n == 1][:24] + [
      'N.node(x=N.Mid(a), y=[N.Mid(b)])']
  for e in bodies:
    yield 'lambda', f"prog = lambda a, b='bd': {e}\n"
    for cv in ('AA', '__auto_config_between', 'zz'):
      e2 = e.replace("'lit'", cv)
      yield 'closure', (
          f"def make():\n  {cv} = 'closure-value'\n  other = 5\n"
          f"  def prog(a, b='bd'):\n    return [{e2}, {cv}, other]\n"
          f"  return prog\nprog = make()\n")
    e2 = e.replace("'lit'", 'cv')
    yield 'closure-rebind', (
        f"def make():\n  cv = 'value-at-decoration-time'\n"
        f"  def prog(a, b='bd'):\n    return [{e2}, cv]\n"
        f"  def rebind(v):\n    nonlocal cv\n    cv = v\n"
        f"  return prog, rebind\nprog, rebind = make()\n")
    yield 'staticmethod', (
        "class K:\n  @DECORATOR\n  @staticmethod\n"
        f"  def prog(a, b='bd'):\n    return {e}\n")
    yield 'classmethod', (
        "class K:\n  tag = 'clsattr'\n  @DECORATOR\n  @classmethod\n"
        f"  def prog(cls, a, b='bd'):\n    return [{e}, cls.tag]\n")
  # several lambdas on one source line with identical parameter names: the
  # rewritten source must be the selected lambda's (or the program rejected)
  for e1, e2 in (('N.node(x=a)', 'N.node_b(x=a)'),
                 ('N.node(x=1)', 'N.node(x=1000)'),
                 ('N.Mid(a)', '[N.Mid(b), a]')):
    for pick in ('s', 'l'):
      yield 'lambda-pair', (
          f"d = {{'s': lambda a, b='bd': {e1}, 'l': lambda a, b='bd': {e2}}}\n"
          f"prog = d['{pick}']\n")
    yield 'lambda-pair', (
        f"d = (lambda a, b='bd': {e1}, lambda a, c='bd': {e2})\nprog = d[1]\n")
  # a custom exemption policy that (also) says yes for functools.partial and
  # for auto_config helpers: those are still handled by auto_config itself
  for e in bodies[:24]:
    if 'functools.partial' in e or 'acfg.' in e or 'arg_factory' in e:
      yield 'policy', f'{hdr}  return {e}\n'
  yield 'policy', (f'{hdr}  return N.node(x=functools.partial(N.Mid, a), '
                   f'y=acfg.helper_inline(b))\n')
  # one method under both spellings in one program, either order
  for e in ("[N.SCALER.scale(a, bias=b), N.Scaler.scale(N.SCALER, a, bias=b)]",
            "[N.Scaler.scale(N.SCALER, a, bias=b), N.SCALER.scale(a, bias=b)]",
            "N.node(x=N.SCALER.scale(a), y=N.Scaler.scale(N.SCALER, bias=a))"):
    yield 'method-spellings', f'{hdr}  return {e}\n'
  # control flow (experimental_allow_control_flow=True)
  for e in bodies[:12]:
    yield 'cf-ifexp', f"{hdr}  return ({e}) if a else N.node_b(x=b)\n"
    yield 'cf-if', (f"{hdr}  if b == 'bd':\n    v = {e}\n  else:\n"
                    f"    v = N.node_b(x=a)\n  return N.node(x=v, y=v)\n")
    yield 'cf-for', (f"{hdr}  out = []\n  for i in (a, b):\n"
                     f"    out.append(N.node(x=i, y={e}))\n  return out\n")
    yield 'cf-listcomp', f"{hdr}  return [N.node(x=i, y={e}) for i in (a, b)]\n"
    yield 'cf-dictcomp', (f"{hdr}  return {{k: N.node(x=k, y={e}) "
                          f"for k in ('p', 'q')}}\n")


ARGS = [('A',), ('A2', 'B'), ('',)]
_counter = itertools.count()


class PartialCalling(canon.Canon):
  """Canonical form in which partial objects are replaced by what they
  return when called."""

  def c(self, x):
    if isinstance(x, functools.partial):
      r = self._visit(x)
      if r is not None:
        return r
      n = self.memo[id(x)]
      before = len(vfx.LOG)
      try:
        out = x()
      except Exception as e:  # pylint: disable=broad-except
        return ('partial-raises', n, type(e).__name__)
      # the order in which the call invoked the recording callables (argument
      # factories first, positional before keyword ones) is part of the result
      order = tuple(k for _, k, _ in vfx.LOG[before:])
      return ('partial-returns', n, order, self.c(out))
    return super().c(x)


def load_program(kind, src):
  """Compiles the program; returns (plain_fn, decorated_fn) or raises."""
  name = f'_c11_prog_{next(_counter)}'
  filename = f'<{name}>'
  cf = kind.startswith('cf-')
  policy = None
  if kind == 'policy':
    from fiddle._src.experimental import auto_config_policy  # pylint: disable=g-import-not-at-top
    def policy(fn):
      # a non-inlined auto_config helper that the policy exempts is
      # legitimately called (that is what exempting means); the inlined
      # helper and the two partial constructors are auto_config's own
      return (auto_config_policy.latest(fn) or fn is functools.partial or
              fn is arg_factory.partial or fn is acfg.helper_inline)

  def exec_with(decorator_src):
    code = src.replace('  @DECORATOR\n', decorator_src)
    linecache.cache[filename] = (len(code), None, code.splitlines(True),
                                 filename)
    mod = types.ModuleType(name)
    mod.__file__ = filename
    mod.__dict__.update(N=N, acfg=acfg, functools=functools, fdl=fdl,
                        auto_config=auto_config, arg_factory=arg_factory)
    sys.modules[name] = mod
    exec(compile(code, filename, 'exec'), mod.__dict__)  # pylint: disable=exec-used
    return mod

  deco = ('auto_config.auto_config(experimental_allow_control_flow=True, '
          'experimental_result_must_contain_buildable=False)'
          if cf else 'auto_config.auto_config('
          'experimental_result_must_contain_buildable=False)')
  try:
    if kind in ('staticmethod', 'classmethod'):
      plain = exec_with('').__dict__['K'].prog
      mod = exec_with(f'  @{deco}\n')
      return plain, mod.__dict__['K'].prog, filename, name
    mod = exec_with('')
    plain = mod.__dict__['prog']
    if cf:
      decorated = auto_config.auto_config(
          plain, experimental_allow_control_flow=True,
          experimental_result_must_contain_buildable=False)
    elif policy is not None:
      decorated = auto_config.auto_config(
          plain, experimental_result_must_contain_buildable=False,
          experimental_exemption_policy=policy)
    else:
      decorated = auto_config.auto_config(
          plain, experimental_result_must_contain_buildable=False)
    if kind == 'closure-rebind':
      # the closure variable is re-bound after the decoration
      mod.__dict__['rebind']('value-after-rebinding')
    return plain, decorated, filename, name
  except Exception:
    sys.modules.pop(name, None)
    linecache.cache.pop(filename, None)
    raise


def check_program(kind, src, res):
  case = {'kind': kind, 'source': src}
  try:
    plain, decorated, filename, name = load_program(kind, src)
  except Exception as e:  # pylint: disable=broad-except
    res.counters[f'rejected-at-decoration:{kind}:{type(e).__name__}'] += 1
    return
  try:
    for args in ARGS:
      res.transitions += 1
      vfx.reset()
      try:
        direct = ('ok', plain(*args))
      except Exception as e:  # pylint: disable=broad-except
        direct = ('raise', type(e).__name__)
      log_plain = [k for _, k, _ in vfx.LOG]
      c_direct = PartialCalling().c(direct[1]) if direct[0] == 'ok' else None
      if direct[0] != 'ok':
        res.counters['program_raises_when_run_directly'] += 1
        continue
      # decorated call behaves like the undecorated function
      vfx.reset()
      try:
        dec = ('ok', decorated(*args))
      except Exception as e:  # pylint: disable=broad-except
        dec = ('raise', f'{type(e).__name__}: {e}')
      log_dec = [k for _, k, _ in vfx.LOG]
      if dec[0] != 'ok' or log_dec != log_plain or (
          PartialCalling().c(dec[1]) != c_direct):
        res.violation(
            f'C11/decorated-call-differs/{kind}',
            f'{case} args={args}: plain {direct[1]!r} log {log_plain}; '
            f'decorated {dec[1]!r} log {log_dec}', dict(case, args=list(args)))
        return
      # as_buildable invokes no configurable callable
      vfx.reset()
      try:
        cfg = decorated.as_buildable(*args)
      except Exception as e:  # pylint: disable=broad-except
        res.violation(
            f'C11/as_buildable-raises/{kind}/{type(e).__name__}',
            f'{case} args={args}: {type(e).__name__}: {e}',
            dict(case, args=list(args)))
        return
      invoked = [k for _, k, _ in vfx.LOG]
      allowed = src.count('auto_config.exempt(N.node_b)')
      if len([k for k in invoked if k != 'node_b']) or invoked.count(
          'node_b') > allowed * 4:
        res.violation(
            f'C11/as_buildable-invoked-callables/{kind}',
            f'{case} args={args}: {invoked}', dict(case, args=list(args)))
        return
      vfx.reset()
      try:
        built = fdl.build(cfg)
      except Exception as e:  # pylint: disable=broad-except
        res.violation(
            f'C11/build-of-as_buildable-raises/{kind}/{type(e).__name__}',
            f'{case} args={args}: config {cfg!r}: {type(e).__name__}: {e}',
            dict(case, args=list(args)))
        return
      c_built = PartialCalling().c(built)
      res.outcomes[f'{kind}:ok'] += 1
      if c_built != c_direct:
        same_tree = PartialCalling(unfold=True).c(built) == PartialCalling(
            unfold=True).c(plain(*args))
        res.violation(
            f'C11/result-differs/{"sharing" if same_tree else "values"}/{kind}',
            f'{case} args={args}: fn() -> {direct[1]!r}\n build(as_buildable) '
            f'-> {built!r}\n config {cfg!r}', dict(case, args=list(args)))
        return
  finally:
    sys.modules.pop(name, None)
    linecache.cache.pop(filename, None)


NCHUNK = 32


def units(tier, seed):
  return list(range(NCHUNK))


def run_unit(unit, tier, seed):
  b = bounds(tier)
  res = core.Result()
  for idx, (kind, src) in enumerate(programs(b)):
    if idx % NCHUNK != unit:
      continue
    res.states += 1
    res.evals += 1
    if src.count('N.') + src.count('acfg.') >= 2 or 'v0' in src:
      res.nontrivial += 1
    check_program(kind, src, res)
    if idx % 1999 == 0:
      res.sample({'kind': kind, 'program': src})
  res.counters['programs'] = res.states
  return res


def replay(case):
  res = core.Result()
  print(case['source'])
  check_program(case['kind'], case['source'], res)
  for v in res.violations:
    print(v['what'][:2000])
  return res
