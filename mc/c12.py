"""C12: generated Python code reproduces the configuration."""
from __future__ import annotations

import collections
import itertools
import linecache
import sys
import types

import fiddle as fdl
from fiddle.codegen import codegen
from fiddle.codegen import py_val_to_cst_converter
from mc import canon
from mc import core
from mc import shapes
import vfx
import vfx.nodes
from vfx import nodes as N
from vfx.pa import common as pa_common
from vfx.pb import common as pb_common
from vfx.pc import auto_config as pc_auto_config
from vfx.pd import common as pd_common
import libcst as cst

PROP = 'C12'
LEVEL = 'translation_validation'
TECHNIQUE = ('bounded-exhaustive enumeration of configurations x generator x '
             'sub-fixture subsets x complexity thresholds x history option; '
             'each emitted module is compiled, executed and its fixture '
             'compared with the input (translation validation per program)')
RULE = ('every DAG shape over {Config of functions / classes (incl. modules '
        'whose names collide with each other or with fiddle\'s auto_config '
        'module, callables named like the fixture or like an '
        'import, return-annotated functions, nested classes), Partial, '
        'ArgFactory inside Partial, list, tuple, dict with tuple keys} with '
        'leaves {str, enum, nested enum, type, function}, with / without tags '
        '(all tagged arguments have values) x {new_codegen, '
        'auto_config_codegen} x every subset of <= 2 non-root Buildable nodes '
        'as sub-fixtures (and, for nested sub-fixtures sharing a node, every '
        'order of the sub-fixture dict) x max_expression_complexity in {None, 0..3} x '
        'include_history; plus every value of the expression alphabet through '
        'convert_py_val_to_cst; a program is a disagreement when it fails to '
        'compile/run or yields a different configuration')
ASSUMPTIONS = [
    'a generator that raises has rejected the input: counted, never judged',
    'an emitted module that fails to compile, fails when executed, or returns '
    'a configuration with a different canonical form (callables, arguments, '
    'tags, sharing of Buildables/lists/dicts) is a violation',
    'expression clause: eval of the emitted expression (with the modules it '
    'names imported) must equal the value with the same type; floats by repr',
]
LEVEL_TEXT = ('Every emitted module within the bounds is executed and compared '
              'with its source configuration; nothing is sampled.')
LEVEL_NOTE = ('Trusted: mc.canon, exec of emitted code with linecache-backed '
              'source (auto_config needs inspect.getsource). Bounds: N<=2 '
              'nodes plus reduced N=3 / N=4 families; the thorough tier adds a '
              'second N=3 family and all complexity thresholds 0..3.')


def mk(cls, fn):
  def make(vals):
    kw = {n: v for n, v in zip(('x', 'y'), vals) if v is not shapes.UNSET}
    return cls(fn, **kw)
  return make


def _cva0(vals):
  # *args values present, the named parameter below them deleted again
  c = fdl.Config(N.node_va, 'A', *[v for v in vals if v is not shapes.UNSET])
  del c.a
  return c


def kinds():
  K = shapes.Kind
  return {
      'cfg': K('cfg', 2, True, mk(fdl.Config, N.node), True),
      'cls': K('cls', 2, True, mk(fdl.Config, N.Mid), True),
      'pa': K('pa', 2, True, mk(fdl.Config, pa_common.make), True),
      'pb': K('pb', 2, True, mk(fdl.Config, pb_common.Thing), True),
      'pc': K('pc', 2, True, mk(fdl.Config, pc_auto_config.build_thing), True),
      'named_nodes': K('named_nodes', 2, True, mk(fdl.Config, N.nodes), True),
      'named_fixture': K('named_fixture', 2, True, mk(
          fdl.Config, N.config_fixture), True),
      'ann': K('ann', 2, True, mk(fdl.Config, N.annotated), True),
      'annb': K('annb', 2, True, mk(fdl.Config, N.annotated_builtin), True),
      'annn': K('annn', 2, True, mk(fdl.Config, N.annotated_none), True),
      'inner': K('inner', 2, True, mk(fdl.Config, N.Outer.Inner), True),
      'par': K('par', 2, True, mk(fdl.Partial, N.node), True),
      'parf': K('parf', 2, True, lambda vals: fdl.Partial(
          N.node_b, x=fdl.ArgFactory(N.node, **{
              n: v for n, v in zip(('x', 'y'), vals)
              if v is not shapes.UNSET})), True),
      # positional values: positional-only + *args, and a named parameter
      # below *args (generators that cannot express them must reject)
      # a module registered with a dotted un-aliased import statement; a
      # classmethod inherited by a subclass that lives in another module
      'pd': K('pd', 2, True, mk(fdl.Config, pd_common.Widget), True),
      'inhcm2': K('inhcm2', 2, True, mk(fdl.Config, pd_common.MakerFar.make),
                  True),
      # a classmethod inherited by, and reached through, a subclass
      'inhcm': K('inhcm', 2, True, mk(fdl.Config, N.MakerSub.make), True),
      'cpos': K('cpos', 2, True, lambda vals: fdl.Config(
          N.node_pos, *[v for v in vals if v is not shapes.UNSET]), True),
      'cva': K('cva', 2, True, lambda vals: fdl.Config(
          N.node_va, 'A', *[v for v in vals if v is not shapes.UNSET]), True),
      'cva0': K('cva0', 2, True, lambda vals: _cva0(vals), True),
      'list2': K('list2', 2, False, list),
      'tuple2': K('tuple2', 2, False, tuple),
      'tuple1': K('tuple1', 1, False, tuple),
      'dict2': K('dict2', 2, False, lambda v: {'a': v[0], (1, 'k'): v[1]}),
  }


FULL = ['cfg', 'cls', 'pa', 'pb', 'pc', 'pd', 'inhcm', 'inhcm2', 'cpos', 'cva', 'cva0', 'named_nodes', 'named_fixture', 'ann', 'annb',
        'annn', 'inner', 'par', 'parf', 'list2', 'tuple2', 'dict2']
SMALL = ['cfg', 'pa', 'par', 'list2']
ROOTS = [k for k in FULL if k not in ('list2', 'tuple2', 'dict2')]
SHARED_LIST = ['m']     # a mutable leaf: the same object wherever it is used
LEAVES = ['L1', SHARED_LIST, N.Color.RED, N.Outer.Mode.TRAIN, N.Base,
          N.node_b]
NCHUNK = 48


def bounds(tier):
  if tier == 'quick':
    return dict(families=[[FULL, 2, 1], [["cfg", "list2", "dict2"], 2, 6, 'leaves'],
                          [['cfg', 'pa', 'list2'], 3, 1, 'notags'],
                          [['cfg', 'tuple1'], 4, 2, 'light']],
                complexities=[None, 1], histories=[False, True])
  return dict(families=[[FULL, 2, 1], [['cfg', 'list2', 'dict2'], 2, 6, 'leaves'],
                        [['cfg', 'pa', 'list2'], 3, 1, 'notags'],
                        [['cfg', 'tuple1'], 4, 2, 'light'],
                        [SMALL + ['parf', 'dict2'], 3, 1]],
              complexities=[None, 0, 1, 2, 3], histories=[False, True])


def units(tier, seed):
  return ([('shapes', k) for k in range(NCHUNK)] + [('expressions',)] +
          [('subfixture_family',)])


def subfixture_family():
  """Six-node shapes built around two sub-fixtures A and B that share a node
  S, where A also contains another node W nested one level down: every
  placement of S, W in x / y slots (so that preferred variable names and
  parameter names coincide or not)."""
  U = shapes.UNSET
  R = lambda j: ('R', j)
  S, W = ('cfg', (U, U)), ('pa', (U, U))          # nodes 0, 1
  for y_slots in ((R(1), U), (U, R(1)), (R(1), R(1))):
    Y = ('cfg', y_slots)                           # node 2
    for a_slots in ((R(0), R(2)), (R(2), R(0))):
      A = ('cls', a_slots)                         # node 3
      for b_slots in ((R(0), U), (U, R(0)), (R(0), R(1)), (R(1), R(0))):
        B = ('pb', b_slots)                        # node 4
        for root_slots in ((R(3), R(4)), (R(4), R(3))):
          yield (S, W, Y, A, B, ('cfg', root_slots))


def nested_subfixture_family():
  """root -> outer -> {i1, i2} -> S: two sibling sub-fixtures nested in a
  third one share a node."""
  U = shapes.UNSET
  R = lambda j: ('R', j)
  S = ('cfg', (U, U))                                 # node 0
  for i1_slots in ((R(0), U), (U, R(0))):
    for i2_slots in ((R(0), U), (U, R(0))):
      for outer_slots in ((R(1), R(2)), (R(2), R(1))):
        yield (S, ('cls', i1_slots), ('pb', i2_slots), ('cfg', outer_slots),
               ('pa', (R(3), U)))


def nested_subfixture_family2():
  """As above with two distinct shared nodes used only inside `outer`."""
  U = shapes.UNSET
  R = lambda j: ('R', j)
  S1, S2 = ('cfg', (U, U)), ('pb', (U, U))           # nodes 0, 1
  for i2_slots in ((R(0), R(1)), (R(1), R(0))):
    yield (S1, S2, ('cls', (R(0), R(1))), ('pb', i2_slots),
           ('cfg', (R(2), R(3))), ('pa', (R(4), U)))


def run_nested_subfixture_family(res):
  for shape in nested_subfixture_family2():
    res.states += 1
    res.nontrivial += 1
    for r in (2, 3):
      for subidx in itertools.permutations((2, 3, 4), r):
        for gen in GENERATORS:
          for complexity in (None, 0):
            res.evals += 1
            check_one(shape, False, gen, subidx, complexity, False, res)
  for shape in nested_subfixture_family():
    res.states += 1
    res.nontrivial += 1
    # every order of the sub-fixture dict over {i1, i2, outer} and its pairs
    for r in (2, 3):
      for subidx in itertools.permutations((1, 2, 3), r):
        for gen in GENERATORS:
          for complexity in (None, 1):
            res.evals += 1
            check_one(shape, False, gen, subidx, complexity, False, res)


def run_subfixture_family(b, res):
  for shape in subfixture_family():
    res.states += 1
    res.nontrivial += 1
    objs = make(shape)
    bidx = [i for i, (kind, _) in enumerate(shape[:-1])]
    # sub-fixture subsets: {A, B}, {A}, {B}, {Y, A}
    for chosen in ((3, 4), (3,), (4,), (2, 3)):
      subidx = tuple(bidx.index(c) for c in chosen)
      for gen in GENERATORS:
        for complexity in (None, 0, 1, 2):
          res.evals += 1
          check_one(shape, False, gen, subidx, complexity, False, res)
  res.sample({'subfixture_family_example': next(iter(subfixture_family()))})



def all_cases(b):
  kk = kinds()
  seen = set()
  for fam in b['families']:
    menu, n, nl = fam[:3]
    profile = fam[3] if len(fam) > 3 else 'full'
    for s in shapes.all_shapes([kk[m] for m in menu], n, nl,
                               root_kinds=ROOTS):
      if profile == 'light' and not any(k.startswith('tuple') for k, _ in s):
        continue   # the light family is about tuples; the rest is covered
      if s not in seen:
        seen.add(s)
        yield s, profile


_KK = None


def make(shape, tagged=False):
  global _KK
  if _KK is None:
    _KK = kinds()
  objs = shapes.materialize(shape, _KK, LEAVES)
  if tagged == 'two':
    for o in objs:
      if isinstance(o, fdl.Buildable) and 'x' in o.__arguments__ and not (
          isinstance(o.__arguments__['x'], fdl.ArgFactory)):
        fdl.add_tag(o, 'x', N.TagA)
        fdl.add_tag(o, 'x', N.TagC)
  elif tagged:
    for i, o in enumerate(objs):
      if isinstance(o, fdl.Buildable):
        for v in o.__arguments__.values():
          if isinstance(v, fdl.ArgFactory) and 'x' in v.__arguments__:
            fdl.add_tag(v, 'x', N.TagB)       # the ArgFactory's own argument
        # only arguments that have values are tagged (domain of C12)
        for j, name in enumerate(('x', 'y')):
          if name in o.__arguments__ and not isinstance(
              o.__arguments__[name], fdl.ArgFactory):
            fdl.add_tag(o, name, N.TagA if (i + j) % 2 else N.TagB)
  return objs


_counter = itertools.count()


def run_module(code, generator):
  """Executes an emitted module; returns the configuration of its fixture."""
  name = f'_c12_generated_{next(_counter)}'
  filename = f'<{name}>'
  linecache.cache[filename] = (len(code), None, code.splitlines(True),
                               filename)
  mod = types.ModuleType(name)
  mod.__file__ = filename
  sys.modules[name] = mod
  try:
    exec(compile(code, filename, 'exec'), mod.__dict__)  # pylint: disable=exec-used
    fixture = mod.__dict__['config_fixture']
    if generator == 'auto_config':
      return fixture.as_buildable()
    return fixture()
  finally:
    sys.modules.pop(name, None)
    linecache.cache.pop(filename, None)


GENERATORS = {'new': codegen.new_codegen,
              'auto_config': codegen.auto_config_codegen}


def check_one(shape, tagged, gen, subidx, complexity, hist, res):
  objs = make(shape, tagged)
  root = objs[-1]
  nonroot = [o for o in objs[:-1] if isinstance(o, fdl.Buildable)]
  sub = {f'sub_fixture_{i}': nonroot[i] for i in subidx}
  case = {'shape': shape, 'tagged': tagged, 'generator': gen,
          'sub_fixtures': list(subidx), 'max_expression_complexity': complexity,
          'include_history': hist}
  want = canon.canon_cfg(root)
  res.transitions += 1
  try:
    code = GENERATORS[gen](root, sub_fixtures=sub or None,
                           max_expression_complexity=complexity,
                           include_history=hist)
  except Exception as e:  # pylint: disable=broad-except
    res.counters[f'rejected:{gen}:{type(e).__name__}'] += 1
    return 'rejected'
  subcls = 'nosub'
  if subidx:
    # is a node chosen as a sub-fixture referenced from more than one place?
    bidx = [i for i, (kind, _) in enumerate(shape[:-1])
            if _KK[kind].is_buildable]
    chosen = {bidx[i] for i in subidx}
    refs = collections.Counter(
        s[1] for _, slots in shape for s in slots
        if isinstance(s, tuple) and s[0] == 'R')
    subcls = ('sub-shared-node' if any(refs[j] > 1 for j in chosen)
              else 'sub')
  tagcls = {False: 'notags', True: 'tags', 'two': 'twotags'}[tagged]
  opt = f'{gen}/{subcls}/{tagcls}' 
  try:
    vfx.reset()
    got = run_module(code, gen)
  except Exception as e:  # pylint: disable=broad-except
    res.violation(
        f'C12/emitted-module-fails/{type(e).__name__}/{opt}',
        f'{case}: {type(e).__name__}: {e}\n code:\n{code}', case)
    return 'fail'
  if vfx.LOG:
    res.violation(f'C12/fixture-invoked-callables/{opt}', f'{case}', case)
    return 'fail'
  c_got = canon.canon_cfg(got)
  if c_got != want:
    tags_only = canon.canon_cfg(got, tags=False) == canon.canon_cfg(
        root, tags=False)
    kind = 'tags-differ' if tags_only else (
        'sharing-differs' if canon.Canon(unfold=True, tags=False).c(got) ==
        canon.Canon(unfold=True, tags=False).c(root) else 'values-differ')
    res.violation(
        f'C12/inexact-code/{kind}/{opt}',
        f'{case}: input {root!r}\n fixture returns {got!r}\n code:\n{code}',
        case)
    return 'fail'
  res.outcomes[f'{opt}:ok'] += 1
  return 'ok'


def run_shapes(k, b, res):
  for idx, (shape, profile) in enumerate(all_cases(b)):
    if idx % NCHUNK != k:
      continue
    objs = make(shape)
    nonroot = [i for i, o in enumerate(
        [o for o in objs[:-1] if isinstance(o, fdl.Buildable)])]
    subsets = [()] + [(i,) for i in nonroot] + list(
        itertools.combinations(nonroot, 2))
    res.states += 1
    if len(shape) > 1:
      res.nontrivial += 1
    light = profile in ('light', 'leaves')
    for tagged in ((False,) if profile in ('light', 'notags') else (
        False, True, 'two')):
      for gen in GENERATORS:
        for subidx in ([()] if light else subsets):
          for complexity in ([None, 0] if light else b['complexities']):
            for hist in ([False] if light else b['histories']):
              if hist and (complexity is not None or subidx):
                continue   # history is orthogonal: crossed with defaults only
              if tagged == 'two' and (complexity is not None or subidx):
                continue   # two-tag variant: default options only
              res.evals += 1
              check_one(shape, tagged, gen, subidx, complexity, hist, res)
    if idx % 499 == 0:
      res.sample({'shape': shape, 'config': repr(make(shape)[-1])[:160]})


# ------------------------------------------------------------ expressions
def expression_values():
  out = [0, -1, 2**64, -10**40, True, False, None, 0.5, -0.0, 1e308, 5e-324,
         float('inf'), float('-inf'), float('nan'), 'a', '', 'q"\'\\\n\x00é',
         b'', b'\\u0041\xff', N.Color.RED, N.Outer.Mode.EVAL, N.Mode.TRAIN,
         N.Base, N.node, N.Outer.Inner, int, len, N.MakerBase.make,
         N.MakerSub.make, pd_common.MakerFar.make, pd_common.Widget]
  for re_ in (0.0, -0.0, 1.0, -1.0):
    for im in (0.0, -0.0, 1.0, -1.0):
      out.append(complex(re_, im))
  out += [[], [1, [2]], (), (1,), (1, (2, 'x')), {}, {'a': 1, (1, 2): [3]},
          set(), {1, 2}, frozenset({1}), N.Pair(1, 'b'),
          collections.defaultdict(list, {'a': 1}),
          __import__('functools').partial(N.node, 1, y=2),
          fdl.Config(N.node, x=1), fdl.Partial(N.Mid, y=[2]),
          fdl.ArgFactory(N.node), slice(1, 2, None), range(3), Ellipsis]
  return out


def run_expressions(res):
  vals = expression_values()
  for i, v in enumerate(vals):
    res.states += 1
    res.evals += 1
    res.nontrivial += 1
    case = {'expression_index': i, 'value': repr(v)[:100]}
    try:
      node = py_val_to_cst_converter.convert_py_val_to_cst(v)
      code = cst.Module(body=[]).code_for_node(node)
    except Exception as e:  # pylint: disable=broad-except
      res.counters[f'rejected:expression:{type(e).__name__}'] += 1
      continue
    res.transitions += 1
    env = {'fdl': fdl, 'vfx': vfx, 'builtins': __import__('builtins'),
           'functools': __import__('functools'),
           'vfx.pd.common': pd_common,
           'collections': collections, 'fiddle': fdl}
    try:
      back = eval(code, env)  # pylint: disable=eval-used
    except Exception as e:  # pylint: disable=broad-except
      res.violation(f'C12/expression-does-not-evaluate/{type(v).__name__}',
                    f'{case}: code {code!r}: {type(e).__name__}: {e}', case)
      continue
    same = canon.canon_cfg(back) == canon.canon_cfg(v) and type(back) is (
        type(v))
    res.outcomes[f'expression:{type(v).__name__}:{same}'] += 1
    if not same:
      res.violation(f'C12/expression-evaluates-to-different-value/'
                    f'{type(v).__name__}',
                    f'{case}: code {code!r} evaluates to {back!r}', case)
  res.sample({'expressions': len(vals)})


def run_unit(unit, tier, seed):
  b = bounds(tier)
  res = core.Result()
  if unit[0] == 'expressions':
    run_expressions(res)
  elif unit[0] == 'subfixture_family':
    global _KK
    if _KK is None:
      _KK = kinds()
    run_subfixture_family(b, res)
    run_nested_subfixture_family(res)
  else:
    run_shapes(unit[1], b, res)
  res.counters['programs'] = res.transitions
  return res


def _shape(x):
  return tuple((k, tuple(tuple(s) if isinstance(s, list) else s for s in sl))
               for k, sl in x)


def replay(case):
  res = core.Result()
  if 'expression_index' in case:
    run_expressions(res)
    return res
  r = check_one(_shape(case['shape']), case['tagged'], case['generator'],
                tuple(case['sub_fixtures']), case['max_expression_complexity'],
                case['include_history'], res)
  print('outcome:', r)
  for v in res.violations:
    print(v['what'][:3000])
  return res
