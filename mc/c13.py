"""C13: the generated fiddler does what apply_diff does."""
from __future__ import annotations

import copy
import itertools

import fiddle as fdl
from fiddle import daglish
from fiddle import diffing
from fiddle.codegen import codegen_diff
from mc import c10
from mc import canon
from mc import core
from vfx import nodes as N
from vfx.pd import common as pd_common

PROP = 'C13'
LEVEL = 'model_checking'
TECHNIQUE = ('bounded-exhaustive enumeration of diffs (all pairs of a closed '
             'family, identity-sharing pairs, all edit chains, hand-assembled '
             'diffs) x naming mode x old supplied/None; the emitted fiddler is '
             'compiled, executed and compared with apply_diff')
RULE = ('every diff produced by build_diff on the C10 spaces (ordered pairs, '
        'pairs sharing objects by identity, edit chains incl. chains of new '
        'shared values referencing each other in every name order) for which '
        'apply_diff succeeds, plus hand-assembled diffs whose new shared '
        'values / changes reference parts of old that another change moves, '
        'replaces or deletes; x variable_naming in {explicit, short} x old in '
        '{supplied, None}; each emitted module is a program validated against '
        'its own diff')
ASSUMPTIONS = [
    'a diff on which apply_diff itself raises is out of domain (counted)',
    'fiddler_from_diff raising, the module failing to compile, or the fiddler '
    'raising are violations: the statement promises a working fiddler for '
    'every diff',
    'comparison by mc.canon (callables, arguments, tags, sharing)',
]
LEVEL_TEXT = ('Each emitted fiddler is compiled, run on a copy of old and '
              'compared with what apply_diff produces, for every diff of the '
              'bounded spaces and every option setting.')
LEVEL_NOTE = ('Trusted: mc.canon, exec of the emitted module in a fresh '
              'namespace. Bounds: those of C10 (reduced family for all-pairs).')

NCHUNK = 32
SETTINGS = [(nm, so) for nm in ('explicit', 'short') for so in (True, False)]


def bounds(tier):
  if tier == 'quick':
    return dict(pair_families=['S3small'], identity=['A', 'S3'], edits=2)
  return dict(pair_families=['S3small', 'P'], identity=['A', 'S3', 'B2'],
              edits=2)


c10.FAMILIES['S3small'] = (['cfg', 'list2'], 2, 2)


def units(tier, seed):
  b = bounds(tier)
  out = []
  for f in b['pair_families']:
    out += [('pairs', f, k) for k in range(NCHUNK)]
  out += [('identity', f) for f in b['identity']]
  out += [('edits', k) for k in range(NCHUNK)]
  out.append(('handmade',))
  return out


def run_fiddler(diff, old_for_gen, naming, target):
  mod = codegen_diff.fiddler_from_diff(diff, old=old_for_gen,
                                       variable_naming=naming)
  code = mod.code
  ns = {}
  exec(compile(code, '<fiddler>', 'exec'), ns)  # pylint: disable=exec-used
  ns['fiddler'](target)
  return code


def check_diff(old, diff, res, case, label):
  """`old` is the configuration, `diff` applies to it."""
  try:
    ref = copy.deepcopy(old)
    diffing.apply_diff(diff, ref)
  except Exception:  # pylint: disable=broad-except
    res.counters['apply_diff_raised_out_of_domain'] += 1
    return
  want = canon.canon_cfg(ref)
  res.states += 1
  if diff.changes:
    res.nontrivial += 1
  nshared = len(diff.new_shared_values)
  for naming, supply_old in SETTINGS:
    target = copy.deepcopy(old)
    res.transitions += 1
    stage = 'generate'
    code = None
    try:
      mod = codegen_diff.fiddler_from_diff(
          diff, old=copy.deepcopy(old) if supply_old else None,
          variable_naming=naming)
      code = mod.code
      stage = 'compile'
      ns = {}
      exec(compile(code, '<fiddler>', 'exec'), ns)  # pylint: disable=exec-used
      stage = 'run'
      ns['fiddler'](target)
    except Exception as e:  # pylint: disable=broad-except
      if stage == 'generate' and isinstance(e, ValueError) and (
          'no registered converter' in str(e)) and 'OrderedDict' in str(e):
        # a value of a type the code generator has no expression for is
        # refused (loudly), not emitted inexactly
        res.counters['rejected:value-type-without-converter'] += 1
        continue
      res.violation(
          f'C13/fiddler-{stage}-raises/{type(e).__name__}/'
          f'shared{min(nshared, 2)}/{"old" if supply_old else "noold"}',
          f'{case} naming={naming} old_supplied={supply_old}: '
          f'{type(e).__name__}: {e}\n diff {diff}\n code:\n{code}',
          dict(case, naming=naming, old_supplied=supply_old))
      continue
    res.outcomes[f'{label}:{naming}:{supply_old}:shared{min(nshared, 2)}'] += 1
    got = canon.canon_cfg(target)
    if got != want:
      if _removed_annotation_tag(diff) and canon.canon_cfg(
          target, tags=False) == canon.canon_cfg(ref, tags=False):
        res.violation(
            'C13/fiddler-result-differs-from-apply_diff/annotation-tag-'
            f'removed-in-new-value/{"old" if supply_old else "noold"}',
            f'{case} naming={naming}: apply_diff gives {ref!r}\n fiddler '
            f'gives {target!r}\n code:\n{code}',
            dict(case, naming=naming, old_supplied=supply_old))
        continue
      res.violation(
          f'C13/fiddler-result-differs-from-apply_diff/shared'
          f'{min(nshared, 2)}/{"old" if supply_old else "noold"}',
          f'{case} naming={naming} old_supplied={supply_old}: apply_diff '
          f'gives {ref!r}\n fiddler gives {target!r}\n code:\n{code}',
          dict(case, naming=naming, old_supplied=supply_old))


def _removed_annotation_tag(diff):
  """Does a new value of the diff configure a callable one of whose
  annotation tags is absent from the configuration's tag sets?"""
  from fiddle._src import tag_type  # pylint: disable=g-import-not-at-top
  found = [False]

  def walk(v):
    if isinstance(v, fdl.Buildable):
      try:
        ann = tag_type.find_tags_from_annotations(v.__fn_or_cls__)
      except Exception:  # pylint: disable=broad-except
        ann = {}
      for name, tags in ann.items():
        if not set(tags) <= set(v.__argument_tags__.get(name, ())):
          found[0] = True
      for a in v.__arguments__.values():
        walk(a)
    elif isinstance(v, (list, tuple)):
      for a in v:
        walk(a)
    elif isinstance(v, dict):
      for a in v.values():
        walk(a)

  for c in diff.changes:
    if hasattr(c, 'new_value'):
      walk(c.new_value)
  for v in diff.new_shared_values:
    walk(v)
  return found[0]


def check_pair(old_mk, new_mk, res, case, label):
  old, new = c10.old_mk_new(old_mk, new_mk)
  if c10.classify(old, new) == 'positional-argument':
    res.counters['positional_arguments_out_of_domain_(C10_finding)'] += 1
    return
  try:
    diff = diffing.build_diff(old, new)
  except Exception:  # pylint: disable=broad-except
    res.counters['build_diff_raised_(judged_by_C10)'] += 1
    return
  check_diff(old, diff, res, case, label)


def handmade():
  """(name, old, diff): diffs a user could assemble by hand."""
  R = diffing.Reference
  A, I, K = daglish.Attr, daglish.Index, daglish.Key
  def old():
    return fdl.Config(N.node, x=fdl.Config(N.node_b, x=1, y=[7]),
                      y={'k': fdl.Config(N.Other, x='o'), 'j': [1, 2]})
  out = []
  # new shared value referencing a part of old that another change deletes
  out.append(('shared-refs-deleted-part', old(), diffing.Diff(
      changes=(diffing.DeleteValue((A('x'),)),
               diffing.SetValue((A('y'), K('n')), R('new_shared_values',
                                                     (I(0),))),
               diffing.ModifyValue((A('y'), K('j')), R('new_shared_values',
                                                        (I(0),)))),
      new_shared_values=(fdl.Config(N.Base, x=R('old', (A('x'),))),))))
  # moved: x.y moved to y['m'] while x is replaced
  out.append(('moved-out-of-replaced', old(), diffing.Diff(
      changes=(diffing.ModifyValue((A('x'),), 'replaced'),
               diffing.SetValue((A('y'), K('m')), R('old', (A('x'), A('y')))),
               ),
      new_shared_values=())))
  # swap two parts of old
  out.append(('swap', old(), diffing.Diff(
      changes=(diffing.ModifyValue((A('x'),), R('old', (A('y'), K('k')))),
               diffing.ModifyValue((A('y'), K('k')), R('old', (A('x'),)))),
      new_shared_values=())))
  # two shared values, the first referencing the second, both name orders
  for first, second in ((N.Base, N.Other), (N.Other, N.Base)):
    out.append((f'shared-{first.__name__}-refs-{second.__name__}', old(),
                diffing.Diff(
                    changes=(diffing.ModifyValue((A('x'),), R(
                        'new_shared_values', (I(0),))),
                             diffing.SetValue((A('y'), K('n')), R(
                                 'new_shared_values', (I(1),)))),
                    new_shared_values=(
                        fdl.Config(first, x=R('new_shared_values', (I(1),))),
                        fdl.Config(second, x=R('old', (A('y'), K('j'))))))))
  # a value of old replaced / deleted through one path of a shared parent
  # while another change stores a reference to it spelled through the other
  # path; the value may be empty (falsy)
  def old2(v, parent):
    inner = fdl.Config(N.node_b, x=v, y='inner')
    return fdl.Config(N.node_kw, a=inner, c=inner,
                      **{parent: fdl.Config(N.node_b, y=parent)})
  vals = {'emptylist': lambda: [], 'emptydict': lambda: {},
          'list': lambda: [7], 'dict': lambda: {'k': 1},
          'cfg': lambda: fdl.Config(N.Other), 'emptytuple': lambda: (),
          'cfgnoargs': lambda: fdl.Config(N.node),
          'listofempty': lambda: [[]]}
  for vn, mk in vals.items():
    for parent in ('z', 'A'):
      for via, ref in (('a', 'c'), ('c', 'a')):
        for op in ('modify', 'delete'):
          chg = (diffing.ModifyValue((A(via), A('x')), [1, 2])
                 if op == 'modify' else diffing.DeleteValue((A(via), A('x'))))
          out.append((f'alias-{vn}-{parent}-{via}-{op}', old2(mk(), parent),
                      diffing.Diff(changes=(
                          chg, diffing.SetValue((A(parent), A('x')), R(
                              'old', (A(ref), A('x'))))),
                                   new_shared_values=())))
  # the same with the value itself shared directly below the root
  for vn, mk in vals.items():
    for op in ('modify', 'delete'):
      v = mk()
      o = fdl.Config(N.node_kw, a=v, c=v, z=fdl.Config(N.node_b, y='z'))
      chg = (diffing.ModifyValue((A('a'),), [1, 2])
             if op == 'modify' else diffing.DeleteValue((A('a'),)))
      out.append((f'alias-direct-{vn}-{op}', o, diffing.Diff(changes=(
          chg, diffing.SetValue((A('z'), A('x')), R('old', (A('c'),)))),
                                                            new_shared_values=())))
  # new shared values whose callables have dotted qualified names (nested
  # class, classmethod) and new values with left-over empty tag sets
  for cname, c in (('nested-class', N.Outer.Inner),
                   ('classmethod', N.MakerSub.make),
                   ('far-classmethod', pd_common.MakerFar.make),
                   ('dotted-import-module', pd_common.Widget),
                   ('enum-leaf', N.node)):
    out.append((f'shared-{cname}', old(), diffing.Diff(
        changes=(diffing.ModifyValue((A('x'),), R('new_shared_values',
                                                  (I(0),))),
                 diffing.SetValue((A('y'), K('n')), R('new_shared_values',
                                                     (I(0),)))),
        new_shared_values=(fdl.Config(c, x=N.Outer.Mode.TRAIN),))))
  def untagged_again():
    v = fdl.Config(N.node, y=3)
    fdl.add_tag(v, 'x', N.TagA)       # no value for x
    fdl.remove_tag(v, 'x', N.TagA)    # leaves an empty tag set behind
    fdl.set_tags(v, 'y', {N.TagB})
    fdl.clear_tags(v, 'y')
    return v
  out.append(('new-value-with-empty-tag-sets', old(), diffing.Diff(
      changes=(diffing.ModifyValue((A('x'),), untagged_again()),
               diffing.SetValue((A('y'), K('n')), [untagged_again()])),
      new_shared_values=())))
  out.append(('shared-value-with-empty-tag-sets', old(), diffing.Diff(
      changes=(diffing.ModifyValue((A('x'),), R('new_shared_values',
                                                (I(0),))),
               diffing.SetValue((A('y'), K('n')), R('new_shared_values',
                                                   (I(0),)))),
      new_shared_values=(untagged_again(),))))
  # the changes of one parent interleaved with those of another parent,
  # where the per-parent order (deletes, callable, assignments) matters
  def two_parents():
    return fdl.Config(N.node_kw, first=fdl.Config(N.node, x=1, y=2),
                      second=fdl.Config(N.node_b, x=3))
  B = daglish.BuildableFnOrCls
  for order in itertools.permutations(range(4)):
    chg = [diffing.SetValue((A('first'), A('x')), 'set-on-new-callable'),
           diffing.ModifyValue((A('second'), A('x')), 'other-parent'),
           diffing.ModifyValue((A('first'), B()), N.only_x),
           diffing.DeleteValue((A('first'), A('y')))]
    chg[0] = diffing.ModifyValue((A('first'), A('x')), 'set-on-new-callable')
    out.append((f'interleaved-parents-{"".join(map(str, order))}',
                two_parents(),
                diffing.Diff(changes=tuple(chg[i] for i in order),
                             new_shared_values=())))
  # tag operations and callable update with argument deletion
  t = old()
  fdl.add_tag(t, 'x', N.TagA)
  out.append(('tags-and-callable', t, diffing.Diff(
      changes=(diffing.RemoveTag((A('x'),), N.TagA),
               diffing.AddTag((A('y'),), N.TagB),
               diffing.DeleteValue((A('x'), A('y'))),
               diffing.ModifyValue((A('x'), daglish.BuildableFnOrCls()),
                                   N.only_x)),
      new_shared_values=())))
  return out


def run_unit(unit, tier, seed):
  b = bounds(tier)
  res = core.Result()
  c10.family('S3')
  c10.TAG_ALL = tier != 'quick'
  if unit[0] == 'pairs':
    fam, k = unit[1], unit[2]
    variants = c10.variants_of(fam)
    for i in range(k, len(variants), NCHUNK):
      so, to = variants[i]
      for j, (sn, tn) in enumerate(variants):
        if (so[-1][0] == 'par') != (sn[-1][0] == 'par'):
          continue
        res.evals += 1
        case = {'family': fam, 'old': so, 'old_tagged': to, 'new': sn,
                'new_tagged': tn}
        check_pair(lambda: c10.make(so, to), lambda old: c10.make(sn, tn),
                   res, case, 'pair')
  elif unit[0] == 'identity':
    fam = unit[1]
    for so in c10.family(fam):
      for name, mk_new in c10.identity_news(c10.make(so)):
        if mk_new(c10.make(so)) is None:
          continue
        res.evals += 1
        case = {'family': fam, 'old': so, 'identity_variant': name}
        check_pair(lambda: c10.make(so), mk_new, res, case, 'identity')
    res.sample({'family': fam, 'identity_pairs': True})
  elif unit[0] == 'edits':
    k = unit[1]
    shp = c10.family('A') + c10.family('S3')
    idx = -1
    for so in shp:
      for tagged in ((False, True) if c10.TAG_ALL or len(so) == 1 else (
          False,)):
        idx += 1
        if idx % NCHUNK != k:
          continue
        nops = len(c10.edit_ops(c10.make(so, tagged)))
        for ln in range(1, b['edits'] + 1):
          for seq in itertools.product(range(nops), repeat=ln):
            if ln > 1 and (so[-1][0] != 'cfg' or (
                not c10.TAG_ALL and len(so) > 2)):
              continue   # longer chains: Config roots (quick: <=2 nodes)
            def mk_new(old, seq=seq):
              new = copy.deepcopy(old)
              ops = c10.edit_ops(new)
              for i in seq:
                try:
                  ops[i][1](new)
                except Exception:  # pylint: disable=broad-except
                  return None
              return new
            if mk_new(c10.make(so, tagged)) is None:
              continue
            res.evals += 1
            names = [c10.edit_ops(c10.make(so, tagged))[i][0] for i in seq]
            case = {'family': 'edits', 'old': so, 'old_tagged': tagged,
                    'edits': list(seq), 'edit_names': names}
            check_pair(lambda: c10.make(so, tagged), mk_new, res, case,
                       'edits')
    res.sample({'edit_chains_up_to': b['edits']})
  else:
    for name, old, diff in handmade():
      res.evals += 1
      check_diff(old, diff, res, {'handmade': name}, 'handmade')
    res.sample({'handmade': [n for n, _, _ in handmade()]})
  return res


def replay(case):
  res = core.Result()
  c10.family('S3')
  if 'handmade' in case:
    for name, old, diff in handmade():
      if name == case['handmade']:
        check_diff(old, diff, res, case, 'handmade')
  else:
    so = c10._shape(case['old'])
    if 'identity_variant' in case:
      for name, mk_new in c10.identity_news(c10.make(so)):
        if name == case['identity_variant']:
          check_pair(lambda: c10.make(so), mk_new, res, case, 'identity')
    elif 'edits' in case:
      def mk_new(old):
        new = copy.deepcopy(old)
        ops = c10.edit_ops(new)
        for i in case['edits']:
          ops[i][1](new)
        return new
      check_pair(lambda: c10.make(so, case['old_tagged']), mk_new, res, case,
                 'edits')
    else:
      sn = c10._shape(case['new'])
      check_pair(lambda: c10.make(so, case['old_tagged']),
                 lambda old: c10.make(sn, case['new_tagged']), res, case,
                 'pair')
  for v in res.violations[:2]:
    print(v['what'][:3000])
  return res
