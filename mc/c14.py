"""C14: tags select exactly the tagged arguments and survive transformations."""
from __future__ import annotations

import collections
import copy
import itertools
import pickle

import fiddle as fdl
from fiddle import diffing
from fiddle import selectors
from fiddle import tagging
from fiddle.experimental import serialization
from mc import canon
from mc import core
from mc import shapes
import vfx
from vfx import nodes as N
from vfx.pa import common as pa_common
from vfx.pb import common as pb_common

PROP = 'C14'
LEVEL = 'model_checking'
TECHNIQUE = ('explicit-state BFS over tag-edit operation sequences on every '
             'bounded DAG; the real configuration is compared after every '
             'operation with a twin edited through raw storage only')
RULE = ('every DAG shape over {Config, annotated-tag Config, positional '
        'Config, **kwargs Config, Partial, TaggedValue in containers (with / '
        'without value), list, dict} up to N nodes with initial tags from a '
        'three-tag hierarchy (TagB subclass of TagA, TagC) x every sequence up '
        'to a length of {add_tag, remove_tag, set_tags, clear_tags, assign '
        'Tag.new(v), assign Tag.new(), set_tagged, select(tag).replace} over '
        'every tag and over keyword, positional and **kwargs arguments; after '
        'each state: list_tags, survival through copy/deepcopy/cast/pickle/'
        'JSON/diff (also a diff that moves the tagged nodes), build of '
        'TaggedValues; plus every constructor call over {absent, plain, '
        'Tag.new(v), Tag.new()} per argument x keyword/positional x Config/'
        'Partial x callables with / without annotation tags')
ASSUMPTIONS = [
    'the twin is edited by writing __arguments__/__argument_tags__ directly '
    '(documented storage), never through the tagging API',
    'remove_tag of an absent tag must raise and change nothing',
    'select(tag).replace deep-copies the value; values are immutable strings',
]
LEVEL_TEXT = ('Exhaustive BFS over tag-edit sequences up to the bound on every '
              'bounded DAG, each transition executed on the real objects and '
              'compared with the twin model (frame condition included).')
LEVEL_NOTE = ('Trusted: mc.canon, the raw-storage twin editor. Bounds: N<=2 '
              'nodes, sequences <=2; the thorough tier adds a reduced N=3 family.')

TAGS = {'A': N.TagA, 'B': N.TagB, 'C': N.TagC}


def mk(cls, fn):
  def make(vals):
    kw = {n: v for n, v in zip(('x', 'y'), vals) if v is not shapes.UNSET}
    return cls(fn, **kw)
  return make


def mk_pos(vals):
  c = fdl.Config(N.node_pos)
  p0, a = vals
  if p0 is not shapes.UNSET:
    c[0] = p0
  if a is not shapes.UNSET:
    c.a = a
  return c


def mk_seq(vals):
  c = fdl.Config(N.node_seq)
  v0, k = vals
  if v0 is not shapes.UNSET:
    c[fdl.VARARGS:] = [v0]
  if k is not shapes.UNSET:
    c.k = k
  return c


def mk_kw(vals):
  kw = {n: v for n, v in zip(('x', 'extra'), vals) if v is not shapes.UNSET}
  return fdl.Config(N.node_kw, **kw)


def kinds():
  K = shapes.Kind
  return {
      'cfg': K('cfg', 2, True, mk(fdl.Config, N.node), True),
      'ctag': K('ctag', 2, True, mk(fdl.Config, N.node_tagged), True),
      'cnd': K('cnd', 2, True, mk(fdl.Config, N.node_nd), True),
      'cpos': K('cpos', 2, True, mk_pos, True),
      'ckw': K('ckw', 2, True, mk_kw, True),
      'cseq': K('cseq', 2, True, mk_seq, True),
      'cni': K('cni', 2, True, mk(fdl.Config, N.NewInit), True),
      'par': K('par', 2, True, mk(fdl.Partial, N.node), True),
      'tv': K('tv', 1, True, lambda v: (N.TagB.new() if v[0] is shapes.UNSET
                                        else N.TagB.new(v[0])), True),
      'list2': K('list2', 2, False, list),
      'dict1': K('dict1', 1, False, lambda v: {'k': v[0]}),
  }


FULL = ['cfg', 'ctag', 'cnd', 'cpos', 'ckw', 'cseq', 'par', 'tv', 'list2',
        'dict1']
ROOTS = ['cfg', 'ctag', 'cnd', 'cpos', 'ckw', 'cseq', 'par']
NCHUNK = 48


def bounds(tier):
  if tier == 'quick':
    return dict(families=[[FULL, 2, 1]], seq=2)
  return dict(families=[[FULL, 2, 1], [['cfg', 'ctag', 'tv', 'list2'], 3, 1]],
              seq=2)


def units(tier, seed):
  return list(range(NCHUNK)) + ['construct']


def run_construct(res):
  """Constructor calls: every combination of {absent, plain value,
  Tag.new(v), Tag.new()} per argument x keyword / positional passing x
  Config / Partial x callables with and without annotation tags. The
  argument's tags are the annotation's plus the TaggedValue's."""
  annotation = {'node_tagged': {'x': {N.TagA}}, 'NewInit': {'x': {N.TagA}}}
  fns = {'node': (N.node, ['x', 'y']), 'node_tagged': (N.node_tagged,
                                                      ['x', 'y']),
         'NewInit': (N.NewInit, ['x', 'y']),
         'node_kw': (N.node_kw, ['x', 'extra']),
         'node_pos': (N.node_pos, [0, 'a'])}
  options = [('absent',), ('plain',)] + [
      ('tv', t, hv) for t in TAGS for hv in (True, False)]
  for cname, cls in (('Config', fdl.Config), ('Partial', fdl.Partial)):
    for fname, (fn, keys) in fns.items():
      for o0, o1 in itertools.product(options, repeat=2):
        for style in ('keyword', 'positional'):
          if style == 'positional' and (fname == 'node_kw' or
                                        o0[0] == 'absent'):
            continue
          case = {'construct': [cname, fname, list(o0), list(o1), style]}

          def value(o, i):
            if o[0] == 'plain':
              return f'P{i}'
            return TAGS[o[1]].new(f'T{i}') if o[2] else TAGS[o[1]].new()

          args, kwargs = [], {}
          for i, (key, o) in enumerate(zip(keys, (o0, o1))):
            if o[0] == 'absent':
              continue
            if style == 'positional' or isinstance(key, int):
              args.append(value(o, i))
            else:
              kwargs[key] = value(o, i)
          if isinstance(keys[0], int) and o0[0] == 'absent' and args:
            continue      # cannot pass `a` positionally without p0
          res.states += 1
          res.evals += 1
          res.nontrivial += 1
          res.transitions += 1
          try:
            real = cls(fn, *args, **kwargs)
          except Exception as e:  # pylint: disable=broad-except
            res.violation(f'C14/constructor-raises/{fname}',
                          f'{case}: {type(e).__name__}: {e}', case)
            continue
          twin = cls(fn)
          got_ann = {k: set(v) for k, v in twin.__argument_tags__.items()
                     if v}
          if got_ann != annotation.get(fname, {}):
            res.violation(
                f'C14/annotation-tags-not-attached/{fname}',
                f'{case}: {cname}({fname}) starts with tags {got_ann}, the '
                f'annotations say {annotation.get(fname, {})}', case)
            continue
          for i, (key, o) in enumerate(zip(keys, (o0, o1))):
            if o[0] == 'plain':
              twin.__arguments__[key] = f'P{i}'
            elif o[0] == 'tv':
              twin.__argument_tags__[key].add(TAGS[o[1]])
              if o[2]:
                twin.__arguments__[key] = f'T{i}'
          res.outcomes[f'construct:{fname}'] += 1
          if canon.canon_cfg(real) != canon.canon_cfg(twin):
            res.violation(
                f'C14/constructor-tags/{fname}',
                f'{case}: real {real!r} tags {dict(real.__argument_tags__)} '
                f'model {twin!r} tags {dict(twin.__argument_tags__)}', case)
            continue
          for sup in (False, True):
            if set(tagging.list_tags(real, add_superclasses=sup)) != (
                model_tags(twin, sup)):
              res.violation(f'C14/list_tags(add_superclasses={sup})',
                            f'{case}', case)


def all_cases(b):
  kk = kinds()
  seen = set()
  for menu, n, nl in b['families']:
    for s in shapes.all_shapes([kk[m] for m in menu], n, nl,
                               root_kinds=ROOTS):
      if s not in seen:
        seen.add(s)
        yield s


_KK = None


def arg_keys(b):
  """The two argument keys the operations address on a node."""
  fn = b.__fn_or_cls__
  if fn is N.node_pos:
    return [0, 'a']
  if fn is N.node_kw:
    return ['x', 'extra']
  if fn is N.node_seq:
    return [0, 'k']
  return ['x', 'y']


def make(shape, raw=False):
  """Materialises the shape with initial tags on nested (non-root) nodes.
  raw=True builds the twin: tags written into storage directly."""
  global _KK
  if _KK is None:
    _KK = kinds()
  objs = shapes.materialize(shape, _KK, ['L1'])
  for o in objs[:-1]:
    if isinstance(o, fdl.Buildable) and type(o).__name__ != 'TaggedValueCls':
      k0, k1 = arg_keys(o)
      o.__argument_tags__[k0].add(N.TagD)   # grandchild of TagA
      o.__argument_tags__[k1].add(N.TagC)
      # two different tag classes with the same name (different modules)
      o.__argument_tags__[k0].add(pa_common.DType)
      o.__argument_tags__[k1].add(pb_common.DType)
  return objs[-1]


# ------------------------------------------------------------ operations
def ops_for(root):
  k0, k1 = arg_keys(root)
  out = []
  for key in (k0, k1):
    for t in TAGS:
      out.append(('add_tag', key, t))
      out.append(('remove_tag', key, t))
      out.append(('set_tags', key, t))
    out.append(('clear_tags', key))
  for t in TAGS:
    out.append(('assign_new', k1 if isinstance(k0, int) else k0, t, 'NV'))
    out.append(('set_tagged', t, 'ST' + t))
    out.append(('select_replace', t, 'SR' + t))
  out.append(('assign_new_unset', k1 if isinstance(k0, int) else k0, 'C'))
  return out


def real_apply(root, op):
  try:
    k = op[0]
    if k == 'add_tag':
      fdl.add_tag(root, op[1], TAGS[op[2]])
    elif k == 'remove_tag':
      fdl.remove_tag(root, op[1], TAGS[op[2]])
    elif k == 'set_tags':
      fdl.set_tags(root, op[1], {TAGS[op[2]]})
    elif k == 'clear_tags':
      fdl.clear_tags(root, op[1])
    elif k == 'assign_new':
      setattr(root, op[1], TAGS[op[2]].new(op[3]))
    elif k == 'assign_new_unset':
      setattr(root, op[1], TAGS[op[2]].new())
    elif k == 'set_tagged':
      fdl.set_tagged(root, tag=TAGS[op[1]], value=op[2])
    elif k == 'select_replace':
      selectors.select(root, tag=TAGS[op[1]],
                       check_nonempty=False).replace(op[2])
    else:
      raise ValueError(op)
    return 'ok', None
  except Exception as e:  # pylint: disable=broad-except
    return 'raise', e


def reachable_buildables(root):
  out = []
  seen = set()

  def walk(v):
    if isinstance(v, fdl.Buildable):
      if id(v) in seen:
        return
      seen.add(id(v))
      out.append(v)
      for a in list(v.__arguments__.values()):
        walk(a)
    elif isinstance(v, (list, tuple)):
      for a in v:
        walk(a)
    elif isinstance(v, dict):
      for a in v.values():
        walk(a)

  walk(root)
  return out


def twin_apply(root, op):
  """Model: edits raw storage. Returns 'ok' or 'raise'."""
  k = op[0]
  tags = root.__argument_tags__
  if k == 'add_tag':
    tags[op[1]].add(TAGS[op[2]])
  elif k == 'remove_tag':
    if TAGS[op[2]] not in tags.get(op[1], ()):
      return 'raise'
    tags[op[1]].discard(TAGS[op[2]])
  elif k == 'set_tags':
    tags[op[1]] = {TAGS[op[2]]}
  elif k == 'clear_tags':
    tags[op[1]] = set()
  elif k == 'assign_new':
    tags[op[1]].add(TAGS[op[2]])
    root.__arguments__[op[1]] = op[3]
  elif k == 'assign_new_unset':
    tags[op[1]].add(TAGS[op[2]])
  elif k in ('set_tagged', 'select_replace'):
    tag = TAGS[op[1]]
    for n in reachable_buildables(root):
      for key, ts in list(n.__argument_tags__.items()):
        if any(issubclass(t, tag) for t in ts):
          n.__arguments__[key] = op[2]
  return 'ok'


def model_tags(root, superclasses=False):
  out = set()
  for n in reachable_buildables(root):
    for ts in n.__argument_tags__.values():
      out |= set(ts)
  if superclasses:
    for t in list(out):
      for base in t.__mro__:
        if base is not fdl.Tag and isinstance(base, type(fdl.Tag)) and (
            issubclass(base, fdl.Tag)):
          out.add(base)
  return out


def mask_root_type(c):
  if isinstance(c, tuple) and c and c[0] == 'B':
    return ('B', '<type>') + c[2:]
  return c


def state_checks(real, twin, untagged_twin_maker, res, case):
  """Observations that must hold in every state."""
  want = canon.canon_cfg(twin)

  def bad(key, msg):
    res.violation(f'C14/{key}', f'{case}: {msg}', case)
    return False

  for sup in (False, True):
    try:
      got = set(tagging.list_tags(real, add_superclasses=sup))
    except Exception as e:  # pylint: disable=broad-except
      return bad('list_tags-raises', repr(e))
    exp = model_tags(twin, sup)
    if got != exp:
      return bad(f'list_tags(add_superclasses={sup})',
                 f'got {sorted(t.name for t in got)} expected '
                 f'{sorted(t.name for t in exp)}')
  res.transitions += 2
  survivors = {
      'copy.copy': lambda c: copy.copy(c),
      'deepcopy': copy.deepcopy,
      'pickle': lambda c: pickle.loads(pickle.dumps(c)),
      'cast': lambda c: fdl.cast(
          fdl.Partial if isinstance(c, fdl.Config) else fdl.Config, c),
      'json': lambda c: serialization.load_json(serialization.dump_json(c)),
  }
  for name, fn in survivors.items():
    try:
      out = fn(real)
    except Exception as e:  # pylint: disable=broad-except
      return bad(f'survive-raises/{name}', f'{type(e).__name__}: {e}')
    res.transitions += 1
    got = canon.canon_cfg(out)
    w = want
    if name in ('copy.copy', 'deepcopy'):
      # editing the tags of the copy must leave the original's tags alone
      try:
        for key in arg_keys(out):
          fdl.add_tag(out, key, N.TagC)
          fdl.clear_tags(out, key)
      except Exception as e:  # pylint: disable=broad-except
        return bad(f'tag-edit-on-copy-raises/{name}', repr(e))
      if canon.canon_cfg(real) != want:
        return bad(f'tag-edit-on-copy-changed-original/{name}',
                   f'original now {real!r}, expected {twin!r}')
    if name == 'cast':
      got, w = mask_root_type(got), mask_root_type(w)
    if got != w:
      return bad(f'tags-lost-or-changed/{name}',
                 f'after {name}: {out!r}\n expected {twin!r}')
  # diff application from an untagged twin
  d = None
  try:
    base = untagged_twin_maker()
    d = diffing.build_diff(base, real)
  except Exception as e:  # pylint: disable=broad-except
    res.counters['build_diff_raised_(judged_by_C10)'] += 1
  if d is not None:
    tgt = untagged_twin_maker()
    try:
      diffing.apply_diff(d, tgt)
    except Exception as e:  # pylint: disable=broad-except
      return bad('apply_diff-of-tag-diff-raises',
                 f'{type(e).__name__}: {e}; diff {d}')
    res.transitions += 1
    if canon.canon_cfg(tgt) != want:
      return bad('tags-lost-or-changed/diff',
                 f'after apply_diff: {tgt!r}\n expected {twin!r}')
  # the same from an untagged twin whose root is a different callable that
  # lacks the parameter `y` (the diff switches the callable and adds tags to
  # arguments only the new callable has)
  def other_callable():
    base = untagged_twin_maker()
    if arg_keys(base) != ['x', 'y'] or isinstance(
        base, tagging.TaggedValueCls):
      return None
    try:
      fdl.update_callable(base, N.only_x, drop_invalid_args=True)
    except Exception:  # pylint: disable=broad-except
      return None
    return base
  d = None
  base = other_callable()
  if base is not None:
    try:
      d = diffing.build_diff(base, real)
    except Exception as e:  # pylint: disable=broad-except
      res.counters['build_diff_raised_(judged_by_C10)'] += 1
  if d is not None:
    tgt = other_callable()
    try:
      diffing.apply_diff(d, tgt)
    except Exception as e:  # pylint: disable=broad-except
      return bad('apply_diff-of-tag-diff-raises/with-callable-change',
                 f'{type(e).__name__}: {e}; diff {d}')
    res.transitions += 1
    if canon.canon_cfg(tgt) != want:
      return bad('tags-lost-or-changed/diff-with-callable-change',
                 f'after apply_diff from a base with another callable: '
                 f'{tgt!r}\n expected {twin!r}')
  # the same from an untagged twin whose two root arguments are swapped (the
  # diff then moves nodes as well as adding tags to their arguments)
  def swapped():
    base = untagged_twin_maker()
    k0, k1 = arg_keys(base)
    a = base.__arguments__
    if k0 in a and k1 in a and not isinstance(k0, int):
      a[k0], a[k1] = a[k1], a[k0]
      return base
    return None
  d = None
  base = swapped()
  if base is not None:
    try:
      d = diffing.build_diff(base, real)
    except Exception as e:  # pylint: disable=broad-except
      res.counters['build_diff_raised_(judged_by_C10)'] += 1
  if d is not None:
    tgt = swapped()
    try:
      diffing.apply_diff(d, tgt)
    except Exception as e:  # pylint: disable=broad-except
      return bad('apply_diff-of-tag-diff-raises/with-moves',
                 f'{type(e).__name__}: {e}; diff {d}')
    res.transitions += 1
    if canon.canon_cfg(tgt) != want:
      return bad('tags-lost-or-changed/diff-with-moves',
                 f'after apply_diff from swapped untagged base: {tgt!r}\n '
                 f'expected {twin!r}')
  return True


def run_construct_varargs(res):
  """Constructor calls with TaggedValues in *args slots: the tags land on the
  slot's index; the configuration builds to the direct call, or fails to
  build when a slot without a value lies below one with a value."""
  options = [('absent',), ('plain',), ('tv', 'A', True), ('tv', 'C', False),
             ('tv', 'B', True)]
  for cname, cls in (('Config', fdl.Config), ('Partial', fdl.Partial)):
    for o0, o1, o2 in itertools.product(options, repeat=3):
      opts = [o0, o1, o2]
      # absent only as a suffix
      seen_absent = False
      ok = True
      for o in opts:
        if o[0] == 'absent':
          seen_absent = True
        elif seen_absent:
          ok = False
      if not ok:
        continue
      case = {'construct_varargs': [cname] + [list(o) for o in opts]}
      args = ['p0', 'a']
      for i, o in enumerate(opts):
        if o[0] == 'plain':
          args.append(f'V{i}')
        elif o[0] == 'tv':
          args.append(TAGS[o[1]].new(f'T{i}') if o[2] else TAGS[o[1]].new())
      res.states += 1
      res.evals += 1
      res.nontrivial += 1
      res.transitions += 1
      try:
        real = cls(N.node_pos, *args)
      except Exception as e:  # pylint: disable=broad-except
        res.violation('C14/constructor-raises/node_pos-varargs',
                      f'{case}: {e!r}', case)
        continue
      res.outcomes['construct_varargs:ok'] += 1
      twin = cls(N.node_pos)
      twin.__arguments__[0] = 'p0'
      twin.__arguments__['a'] = 'a'
      for i, o in enumerate(opts):
        if o[0] == 'plain':
          twin.__arguments__[2 + i] = f'V{i}'
        elif o[0] == 'tv':
          if o[2]:
            twin.__arguments__[2 + i] = f'T{i}'
          twin.__argument_tags__[2 + i].add(TAGS[o[1]])
      if canon.canon_cfg(real) != canon.canon_cfg(twin):
        res.violation('C14/constructor-tags/node_pos-varargs',
                      f'{case}: real {real!r} tags '
                      f'{dict(real.__argument_tags__)}', case)
        continue
      if cls is fdl.Config:
        vfx.reset()
        try:
          built = canon.canon_built(fdl.build(real))
        except Exception as e:  # pylint: disable=broad-except
          built = ('raise', type(e).__name__)
        vfx.reset()
        # a slot without a value below a slot with one: no such call exists
        vals = [o[0] == 'plain' or (o[0] == 'tv' and o[2]) for o in opts
                if o[0] != 'absent']
        hole = any(not v and any(vals[j + 1:]) for j, v in enumerate(vals))
        direct = (('raise',) if hole else
                  canon.canon_built(N.node_pos(*real[:])))
        if hole and built[0] == 'raise':
          continue
        if built != direct:
          res.violation('C14/tagged-constructor-arguments-build-differs',
                        f'{case}: build {built} direct call {direct}', case)


def strip_tags(root):
  for n in reachable_buildables(root):
    if type(n).__name__ == 'TaggedValueCls':
      continue
    for k in list(n.__argument_tags__):
      n.__argument_tags__[k] = set()
  return root


def check_shape(shape, b, res):
  alphabet = ops_for(make(shape))
  seen = set()
  frontier = collections.deque([()])
  while frontier:
    hist = frontier.popleft()
    real = make(shape)
    twin = make(shape)
    ok = True
    case = {'shape': shape, 'ops': [list(alphabet[i]) for i in hist]}
    for i in hist:
      op = alphabet[i]
      before = canon.canon_cfg(real)
      st, err = real_apply(real, op)
      mst = twin_apply(twin, op)
      res.transitions += 1
      res.outcomes[f'{op[0]}:{st}'] += 1
      if st != mst:
        res.violation(
            f'C14/op-outcome/{op[0]}/{_keyclass(op)}',
            f'{case}: {op}: real {st} ({err!r}) model {mst}', case)
        ok = False
        break
      if st == 'raise' and canon.canon_cfg(real) != before:
        res.violation(f'C14/rejected-op-changed-state/{op[0]}', f'{case}',
                      case)
        ok = False
        break
    if not ok:
      continue
    got, want = canon.canon_cfg(real), canon.canon_cfg(twin)
    if got != want:
      op = alphabet[hist[-1]] if hist else ('initial',)
      res.violation(
          f'C14/wrong-state-after/{op[0]}/{_keyclass(op)}',
          f'{case}: real {real!r}\n model {twin!r}', case)
      continue
    if want in seen:
      continue
    seen.add(want)
    res.states += 1
    if hist:
      res.nontrivial += 1
    if not state_checks(real, twin, lambda: strip_tags(make(shape)), res,
                        case):
      continue
    if len(hist) < b['seq']:
      for i in range(len(alphabet)):
        frontier.append(hist + (i,))
  # TaggedValue build clause
  root = make(shape)
  vfx.reset()
  has_unset_tv = any(type(n).__name__ == 'TaggedValueCls' and
                     'value' not in n.__arguments__
                     for n in reachable_buildables(root))
  try:
    fdl.build(root)
    built = 'ok'
  except Exception as e:  # pylint: disable=broad-except
    built = 'raise'
  res.transitions += 1
  if has_unset_tv and built == 'ok':
    res.violation('C14/unset-tagged-value-built', f'{shape}', {
        'shape': shape, 'ops': []})


def _keyclass(op):
  if len(op) > 1 and isinstance(op[1], int):
    return 'positional'
  if len(op) > 1 and op[1] == 'extra':
    return 'var-keyword'
  return 'keyword'


def run_unit(unit, tier, seed):
  b = bounds(tier)
  res = core.Result()
  if unit == 'construct':
    run_construct(res)
    run_construct_varargs(res)
    res.sample({'constructor_calls': res.states})
    return res
  for idx, shape in enumerate(all_cases(b)):
    if idx % NCHUNK != unit:
      continue
    res.evals += 1
    check_shape(shape, b, res)
    if idx % 499 == 0:
      res.sample({'shape': shape, 'config': repr(make(shape))[:160]})
  return res


def _shape(x):
  return tuple((k, tuple(tuple(s) if isinstance(s, list) else s for s in sl))
               for k, sl in x)


def replay(case):
  res = core.Result()
  if 'construct_varargs' in case:
    run_construct_varargs(res)
    res.violations = [v for v in res.violations if v['case'] == case]
    for v in res.violations:
      print(v['what'])
    return res
  if 'construct' in case:
    run_construct(res)
    res.violations = [v for v in res.violations if v['case'] == case]
    for v in res.violations:
      print(v['what'])
    return res
  shape = _shape(case['shape'])
  real, twin = make(shape), make(shape)
  print('config:', real)
  for op in case['ops']:
    op = tuple(op)
    print(' op', op, '->', real_apply(real, op), twin_apply(twin, op))
  print('real :', real, '\nmodel:', twin)
  check_shape(shape, bounds('quick'), res)
  return res
