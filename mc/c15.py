"""C15: select() hits exactly the matching nodes; replace keeps the rest intact."""
from __future__ import annotations

import copy

import fiddle as fdl
from fiddle import selectors
from mc import canon
from mc import core
from mc import shapes
from vfx import nodes as N

PROP = 'C15'
LEVEL = 'model_checking'
TECHNIQUE = ('bounded-exhaustive DAG-shape enumeration x every selector '
             'setting; iteration / set / get / replace compared with an '
             'independent graph walk and a model substitution on a twin')
RULE = ('every DAG shape over {Config of Base/Mid/Leaf/Other classes, Config '
        'of functions (incl. falsy defaults, no defaults), Partial of a class '
        'and of a function, list, dict, tuple} up to N nodes x fn_or_cls in '
        '{Base, Mid, Leaf, Other, node} x match_subclasses x buildable_type in '
        '{Buildable, Config, Partial} x {iterate, get, set, replace(deepcopy), '
        'replace(no deepcopy), replace(value equal to a matching node), '
        'set with two keywords the first of which cuts off / adds matching '
        'nodes, re-iteration and set through a kept selection object after '
        'update_callable on each node}; tag '
        'selections over three tags on two tagged variants (one tag per '
        'argument; several tags below the selected one per argument); non-trivial when the '
        'selection is non-empty and not everything')
ASSUMPTIONS = [
    'replace on a selection that matches the root must raise (documented)',
    'with deepcopy=True the result is compared as a tree (whether two '
    'references to one matching node get one copy or two is not judged); '
    'with deepcopy=False every replaced reference must be the very object v',
    'lists/dicts/tuples on the way may be rebuilt; only Buildable identity is '
    'required to be kept',
]
LEVEL_TEXT = ('Every selector setting is executed on every bounded DAG and '
              'compared with an independent computation of the matching set '
              'and of the substituted graph.')
LEVEL_NOTE = ('Trusted: the matcher and substitution model in this file, '
              'mc.canon. Bounds: N<=2 full menu, N=3 reduced menu (quick); '
              'N<=3 with larger reduced menus (thorough).')


def mk(cls, fn):
  def make(vals):
    kw = {n: v for n, v in zip(('x', 'y'), vals) if v is not shapes.UNSET}
    return cls(fn, **kw)
  return make


def kinds():
  K = shapes.Kind
  return {
      'cBase': K('cBase', 2, True, mk(fdl.Config, N.Base), True),
      'cMid': K('cMid', 2, True, mk(fdl.Config, N.Mid), True),
      'cLeaf': K('cLeaf', 2, True, mk(fdl.Config, N.Leaf), True),
      'cOther': K('cOther', 2, True, mk(fdl.Config, N.Other), True),
      'cfn': K('cfn', 2, True, mk(fdl.Config, N.node), True),
      'cfalsy': K('cfalsy', 2, True, mk(fdl.Config, N.falsy), True),
      'cfalsy2': K('cfalsy2', 2, True, mk(fdl.Config, N.falsy2), True),
      'cnd': K('cnd', 2, True, mk(fdl.Config, N.node_nd), True),
      'pMid': K('pMid', 2, True, mk(fdl.Partial, N.Mid), True),
      'pLeaf': K('pLeaf', 2, True, mk(fdl.Partial, N.Leaf), True),
      'pfn': K('pfn', 2, True, mk(fdl.Partial, N.node), True),
      'list2': K('list2', 2, False, list),
      'dict1': K('dict1', 1, False, lambda v: {'k': v[0]}),
      'tuple1': K('tuple1', 1, False, tuple),
      'nt': K('nt', 2, False, lambda v: N.Pair(*v)),
      'ntsub': K('ntsub', 2, False, lambda v: N.PairSub(*v)),
  }


FULL = ['cBase', 'cMid', 'cLeaf', 'cOther', 'cfn', 'cfalsy', 'cfalsy2', 'cnd',
        'pMid', 'pLeaf', 'pfn', 'list2', 'dict1', 'tuple1']
SMALL = ['cBase', 'cLeaf', 'pMid', 'list2']
ROOTS = [k for k in FULL if k[0] in 'cp']
NCHUNK = 48
TARGETS = {'Base': N.Base, 'Mid': N.Mid, 'Leaf': N.Leaf, 'Other': N.Other,
           'node': N.node}
BTYPES = {'Buildable': fdl.Buildable, 'Config': fdl.Config,
          'Partial': fdl.Partial}
TAGS = {'TagA': N.TagA, 'TagB': N.TagB, 'TagC': N.TagC}


def bounds(tier):
  if tier == 'quick':
    return dict(families=[[FULL, 2, 1], [SMALL, 3, 1],
                          [['cBase', 'pMid', 'nt', 'ntsub'], 3, 1]])
  return dict(families=[[FULL, 2, 1], [SMALL + ['cfn', 'dict1'], 3, 1],
                        [['cBase', 'pMid', 'nt', 'ntsub', 'list2'], 3, 1]])


def units(tier, seed):
  return list(range(NCHUNK))


def all_cases(b):
  kk = kinds()
  seen = set()
  for menu, n, nl in b['families']:
    for s in shapes.all_shapes([kk[m] for m in menu], n, nl,
                               root_kinds=ROOTS):
      if s not in seen:
        seen.add(s)
        yield s


_KK = None


def make(shape, tagged=False):
  global _KK
  if _KK is None:
    _KK = kinds()
  objs = shapes.materialize(shape, _KK, ['L1'])
  if tagged == 2:
    # arguments carrying several tags below the selected one
    for i, o in enumerate(objs):
      if isinstance(o, fdl.Buildable):
        fdl.set_tags(o, 'x', {N.TagA, N.TagB, N.TagD} if i % 2 == 0 else
                     {N.TagB, N.TagD})
        fdl.set_tags(o, 'y', {N.TagC, N.TagB} if i % 2 == 0 else
                     {N.TagC, N.TagA})
  elif tagged:
    for i, o in enumerate(objs):
      if isinstance(o, fdl.Buildable):
        fdl.add_tag(o, 'x', N.TagA if i % 2 == 0 else N.TagB)
        fdl.add_tag(o, 'y', N.TagB if i % 2 == 0 else N.TagC)
  return objs[-1]


def buildables(root, stop=None):
  """Distinct reachable Buildables in DFS order; does not descend into nodes
  for which stop(node) is true (and does not report them)."""
  out = []
  seen = set()

  def walk(v):
    if isinstance(v, fdl.Buildable):
      if id(v) in seen:
        return
      seen.add(id(v))
      if stop is not None and stop(v):
        return
      out.append(v)
      for a in v.__arguments__.values():
        walk(a)
    elif isinstance(v, (list, tuple)):
      for a in v:
        walk(a)
    elif isinstance(v, dict):
      for a in v.values():
        walk(a)

  walk(root)
  return out


def matcher(target, sub, btype):
  def m(node):
    if not isinstance(node, btype):
      return False
    c = node.__fn_or_cls__
    if c is target:
      return True
    return bool(sub and isinstance(target, type) and isinstance(c, type)
                and issubclass(c, target))
  return m


def substitute(v, match, repl, memo):
  """Model of replace(): returns the substituted structure (new containers,
  Buildables edited in place on the twin). memo pins every visited object so
  that ids cannot be recycled while the edit is in flight."""
  if isinstance(v, fdl.Buildable):
    if match(v):
      return repl()
    if id(v) in memo:
      return v
    memo[id(v)] = (v, v)
    for k in list(v.__arguments__):
      v.__arguments__[k] = substitute(v.__arguments__[k], match, repl, memo)
    return v
  if id(v) in memo:
    return memo[id(v)][1]
  if type(v) is list:
    out = [substitute(a, match, repl, memo) for a in v]
  elif type(v) is tuple:
    out = tuple(substitute(a, match, repl, memo) for a in v)
  elif isinstance(v, tuple) and hasattr(v, '_fields'):
    out = type(v)(*[substitute(a, match, repl, memo) for a in v])
  elif type(v) is dict:
    out = {k: substitute(a, match, repl, memo) for k, a in v.items()}
  else:
    return v
  memo[id(v)] = (v, out)
  return out


def marker():
  return fdl.Config(N.node_b, x='REPLACEMENT')


def is_marker(n):
  return isinstance(n, fdl.Config) and n.__fn_or_cls__ is N.node_b


def check_node_selection(shape, tname, sub, bname, res):
  target, btype = TARGETS[tname], BTYPES[bname]
  match = matcher(target, sub, btype)
  case = {'shape': shape, 'fn_or_cls': tname, 'match_subclasses': sub,
          'buildable_type': bname}
  sel_kw = dict(match_subclasses=sub, buildable_type=btype,
                check_nonempty=False)
  # ---- iterate
  cfg = make(shape)
  expected = [n for n in buildables(cfg) if match(n)]
  allb = buildables(cfg)
  try:
    got = list(selectors.select(cfg, target, **sel_kw))
  except Exception as e:  # pylint: disable=broad-except
    res.violation(f'C15/iterate-raises', f'{case}: {e!r}', case)
    return
  res.transitions += 1
  if sorted(map(id, got)) != sorted(map(id, expected)):
    res.violation(
        f'C15/iterate-wrong-set/{"extra" if len(got) > len(expected) else "missing-or-different"}',
        f'{case}: selected {got!r} expected {expected!r}', case)
    return
  if expected and len(expected) < len(allb):
    res.nontrivial += 1
  res.outcomes[f'select:{tname}:{sub}:{bname}:{min(len(expected), 3)}'] += 1
  # ---- get
  try:
    vals = list(selectors.select(cfg, target, **sel_kw).get('x'))
    exp_vals = [getattr(n, 'x') for n in expected]
    res.transitions += 1
    if sorted(map(repr, vals)) != sorted(map(repr, exp_vals)):
      res.violation('C15/get-values', f'{case}: {vals!r} vs {exp_vals!r}',
                    case)
      return
  except AttributeError:
    pass   # node_nd without x set: getattr raises on the expected node too
  # ---- set
  cfg = make(shape)
  twin = make(shape)
  for n in buildables(twin):
    if match(n):
      n.x = 'SET'
  selectors.select(cfg, target, **sel_kw).set(x='SET')
  res.transitions += 1
  if canon.canon_cfg(cfg) != canon.canon_cfg(twin):
    res.violation('C15/set-wrong-nodes',
                  f'{case}: after set {cfg!r} expected {twin!r}', case)
    return
  # ---- set with several keywords, the first of which changes what is
  # reachable: exactly the nodes selected when set() was called get both
  for vname in ('none', 'matching-config'):
    cfg = make(shape)
    twin = make(shape)
    if vname == 'none':
      v1 = v1t = None
    else:
      v1 = fdl.Config(target, y='PASSED')
      v1t = fdl.Config(target, y='PASSED')
      if not match(v1):
        continue
    for n in [n for n in buildables(twin) if match(n)]:
      n.x = v1t
      n.y = 'SET2'
    try:
      selectors.select(cfg, target, **sel_kw).set(x=v1, y='SET2')
    except Exception as e:  # pylint: disable=broad-except
      res.violation('C15/set-raises', f'{case}: set(x={v1!r}, y=..): {e!r}',
                    case)
      return
    res.transitions += 1
    if canon.canon_cfg(cfg) != canon.canon_cfg(twin):
      res.violation(f'C15/set-wrong-nodes/two-keywords/{vname}',
                    f'{case}: after set(x={v1!r}, y="SET2") {cfg!r} expected '
                    f'{twin!r}', case)
      return
  # ---- a selection object that is kept while the configuration changes
  # re-evaluates its matches: after update_callable on one node, iterating
  # the same object again gives the matching set of the changed graph
  nb = len(buildables(make(shape))) if sub else 0
  for i in range(nb):
    cfg = make(shape)
    sel = selectors.select(cfg, target, **sel_kw)
    first = list(sel)
    node = buildables(cfg)[i]
    newc = N.node_b if match(node) else target
    try:
      fdl.update_callable(node, newc)
    except Exception:  # pylint: disable=broad-except
      continue
    exp2 = [n for n in buildables(cfg) if match(n)]
    got2 = list(sel)
    res.transitions += 1
    if sorted(map(id, got2)) != sorted(map(id, exp2)):
      res.violation(
          'C15/iterate-wrong-set/kept-selection-after-update_callable',
          f'{case}: node {i} -> {newc.__name__}: selected {got2!r} expected '
          f'{exp2!r}', case)
      return
    allb2 = buildables(cfg)
    sel.set(y='AFTER')
    if sorted(id(n) for n in allb2 if n.__arguments__.get(
        'y') == 'AFTER') != sorted(map(id, exp2)):
      res.violation('C15/set-wrong-nodes/kept-selection-after-update_callable',
                    f'{case}: node {i} -> {newc.__name__}: {cfg!r}', case)
      return
  # ---- replace
  for mode in ('deepcopy', 'identity', 'equal_value'):
    cfg = make(shape)
    twin = make(shape)
    root_matches = match(cfg)
    if mode == 'equal_value':
      if not expected:
        continue
      # a replacement structurally equal to the first matching node
      first = [n for n in buildables(cfg) if match(n)][0]
      v = copy.deepcopy(first)
      repl_model = lambda v=v: v
      dc = False
    else:
      v = marker()
      dc = mode == 'deepcopy'
      repl_model = (lambda v=v: copy.deepcopy(v)) if dc else (lambda v=v: v)
    keep = buildables(cfg, stop=match)     # must keep their identity
    try:
      selectors.select(cfg, target, **sel_kw).replace(v, deepcopy=dc)
      outcome = 'ok'
    except Exception as e:  # pylint: disable=broad-except
      outcome = 'raise'
    res.transitions += 1
    if root_matches:
      if outcome != 'raise':
        res.violation('C15/replace-root-accepted', f'{case}', case)
        return
      continue
    if outcome == 'raise':
      res.violation(f'C15/replace-raises/{mode}', f'{case}', case)
      return
    twin_v = copy.deepcopy(v)    # the twin graph gets its own replacement
    model = substitute(twin, match, (lambda: copy.deepcopy(v)) if dc else (
        lambda: twin_v), {})
    if dc:
      a = canon.Canon(unfold=True).c(cfg)
      bb = canon.Canon(unfold=True).c(model)
    else:
      a = canon.canon_cfg(cfg)
      bb = canon.canon_cfg(model)
    if a != bb:
      res.violation(f'C15/replace-wrong-result/{mode}',
                    f'{case}: after replace {cfg!r}\n expected {model!r}',
                    case)
      return
    after = [n for n in buildables(cfg) if not _is_repl(n, v, mode)]
    if sorted(map(id, after)) != sorted(map(id, keep)):
      lost = [n for n in keep if id(n) not in set(map(id, after))]
      res.violation(
          f'C15/replace-identity-of-non-matching-nodes/{mode}',
          f'{case}: non-matching Buildables that did not keep their identity '
          f'or place: {lost!r}', case)
      return
    if not dc:
      # every replaced reference is the very object v
      if expected and not _all_refs_are(cfg, match, v):
        res.violation(f'C15/replace-stale-matching-node/{mode}',
                      f'{case}: a matching node is still reachable: {cfg!r}',
                      case)
        return


_TW = {}


def _same(twin, v):
  """The twin gets its own replacement object (one per twin), so that the
  model graph aliases exactly like the real one."""
  key = id(twin)
  if key not in _TW:
    _TW.clear()
    _TW[key] = copy.deepcopy(v)
  return _TW[key]


def _is_repl(n, v, mode):
  if mode == 'equal_value':
    return n is v or any(n is d for d in buildables(v))
  if is_marker(n):
    return True
  return False


def _all_refs_are(root, match, v):
  vids = {id(d) for d in buildables(v)}
  for n in buildables(root, stop=lambda x: id(x) in vids):
    if match(n):
      return False
  return True


def check_tag_selection(shape, res):
  for tname, tag in TAGS.items():
    for tagged in (True, 2):
      _check_tag_selection(shape, res, tname, tag, tagged)


def _check_tag_selection(shape, res, tname, tag, tagged):
  for _ in (0,):
    cfg = make(shape, tagged=tagged)
    case = {'shape': shape, 'tag': tname, 'tagging': int(tagged)}
    exp = []
    for n in buildables(cfg):
      params = n.__signature_info__.signature.parameters
      for arg, tags in n.__argument_tags__.items():
        if any(issubclass(t, tag) for t in tags):
          if arg in n.__arguments__:
            exp.append(n.__arguments__[arg])
          elif params[arg].default is not params[arg].empty:
            exp.append(params[arg].default)
          else:
            exp.append(fdl.NO_VALUE)
    try:
      got = list(selectors.select(cfg, tag=tag, check_nonempty=False))
    except Exception as e:  # pylint: disable=broad-except
      res.violation('C15/tag-iterate-raises', f'{case}: {e!r}', case)
      continue
    res.transitions += 1
    key = lambda v: (type(v).__name__, repr(v))
    if sorted(map(key, got)) != sorted(map(key, exp)):
      res.violation('C15/tag-iterate-values',
                    f'{case}: yielded {got!r} expected {exp!r}', case)
      continue
    res.outcomes[f'tag:{tname}:{min(len(exp), 3)}'] += 1
    # replace through the tag selection
    twin = make(shape, tagged=tagged)
    for n in buildables(twin):
      for arg, tags in n.__argument_tags__.items():
        if any(issubclass(t, tag) for t in tags):
          setattr(n, arg, 'TAGREPL')
    selectors.select(cfg, tag=tag, check_nonempty=False).replace('TAGREPL')
    res.transitions += 1
    if canon.canon_cfg(cfg) != canon.canon_cfg(twin):
      res.violation('C15/tag-replace', f'{case}: {cfg!r} vs {twin!r}', case)
    # a tag selection object that is kept while the graph changes: a node
    # attached afterwards is seen, a detached one is not touched
    def expected_values(root):
      out = []
      for n in buildables(root):
        params = n.__signature_info__.signature.parameters
        for arg, tags in n.__argument_tags__.items():
          if any(issubclass(t, tag) for t in tags):
            if arg in n.__arguments__:
              out.append(n.__arguments__[arg])
            elif params[arg].default is not params[arg].empty:
              out.append(params[arg].default)
            else:
              out.append(fdl.NO_VALUE)
      return out
    cfg = make(shape, tagged=tagged)
    sel = selectors.select(cfg, tag=tag, check_nonempty=False)
    list(sel)
    detached = cfg.__arguments__.get('y')
    attached = fdl.Config(N.node_b, x='ATTACHED')
    fdl.add_tag(attached, 'x', N.TagB)
    fdl.add_tag(attached, 'y', N.TagC)
    cfg.y = [attached]
    exp2 = expected_values(cfg)
    got2 = list(sel)
    res.transitions += 1
    if sorted(map(key, got2)) != sorted(map(key, exp2)):
      res.violation('C15/tag-iterate-values/kept-selection-after-attaching',
                    f'{case}: yielded {got2!r} expected {exp2!r}', case)
      continue
    own = lambda n: tuple(sorted((str(k_), id(v_))
                                 for k_, v_ in n.__arguments__.items()))
    before_detached = own(detached) if isinstance(
        detached, fdl.Buildable) and not any(
            detached is n for n in buildables(cfg)) else None
    sel.replace('R2')
    if any(v != 'R2' for v in list(sel)):   # (the replace may detach nodes)
      res.violation('C15/tag-replace/kept-selection-after-attaching',
                    f'{case}: {cfg!r}', case)
      continue
    if before_detached is not None and own(detached) != before_detached:
      res.violation('C15/tag-replace/detached-node-overwritten',
                    f'{case}: {detached!r}', case)


def run_unit(unit, tier, seed):
  b = bounds(tier)
  res = core.Result()
  for idx, shape in enumerate(all_cases(b)):
    if idx % NCHUNK != unit:
      continue
    res.states += 1
    res.evals += 1
    for tname in TARGETS:
      for sub in (True, False):
        for bname in BTYPES:
          try:
            check_node_selection(shape, tname, sub, bname, res)
          except RecursionError:
            case = {'shape': shape, 'fn_or_cls': tname,
                    'match_subclasses': sub, 'buildable_type': bname}
            res.violation('C15/selection-operation-recursed-forever',
                          f'{case}', case)
    check_tag_selection(shape, res)
    if idx % 997 == 0:
      res.sample({'shape': shape, 'config': repr(make(shape))[:160]})
  return res


def _shape(x):
  return tuple((k, tuple(tuple(s) if isinstance(s, list) else s for s in sl))
               for k, sl in x)


def replay(case):
  res = core.Result()
  shape = _shape(case['shape'])
  print('config:', make(shape))
  if 'tag' in case:
    check_tag_selection(shape, res)
  else:
    check_node_selection(shape, case['fn_or_cls'], case['match_subclasses'],
                         case['buildable_type'], res)
  return res
