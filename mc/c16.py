"""C16: argument history is a faithful, ordered log of edits."""
from __future__ import annotations

import collections
import itertools
import os

import fiddle as fdl
from fiddle import history
from fiddle._src import materialize
from mc import canon
from mc import core
import vfx
from vfx import nodes as N
from vfx import sigs as S

PROP = 'C16'
LEVEL = 'model_checking'
TECHNIQUE = ('explicit-state BFS over edit-operation sequences with a history '
             'monitor evaluated on every transition; preemption-bounded '
             'schedule enumeration for the concurrent clause (mc.sched)')
RULE = ('BFS over every sequence up to a length of {set/del by name, index, '
        'negative index, *args slice assignment / insertion / deletion with '
        'compaction, add/remove/set/clear tag, assign Tag.new, '
        'update_callable (with drop_invalid_args), materialize_defaults, '
        'copy_with, assign, edit of a deep copy (the original must not move), '
        'the same edits inside suspend_tracking (single, '
        'nested, after set_tracking(False), with an exception)} on a '
        'positional/variadic signature and on a keyword signature; states '
        'deduplicated by (stored arguments, tags, tracking flag, dirty set); '
        'the monitor compares the storage delta of each transition with the '
        'history delta; a rejected edit leaves callable, signature, cfg[:], dir '
        'and history untouched; edits made from user files whose paths end like '
        'Fiddle internals are attributed to those files; thread schedules incl. '
        'a thread editing inside suspend blocks')
ASSUMPTIONS = [
    '"changed stored value" is read off __arguments__ before/after the '
    'transition (whether the edit itself is right is C03\'s business)',
    'an assignment that stores an identical object may or may not add an '
    'entry (the statement only speaks about changes)',
    'locations of tag edits are not judged (tagging.py is not in Fiddle\'s '
    'exclusion list); value edits, update_callable, materialize_defaults, '
    'copy_with and assign must be attributed to this harness file',
    'parameters edited while tracking is suspended are exempt from the '
    '"history ends with the current value" clause until their next tracked '
    'edit',
]
LEVEL_TEXT = ('Every edit sequence up to the bound is executed on real '
              'Buildables and the history invariants (exactly one entry per '
              'changed parameter, last entry = current value/tags, globally '
              'increasing unique sequence ids, caller attribution, suspension) '
              'are evaluated on every transition.')
LEVEL_NOTE = ('Trusted: the monitor in this file. Bounds: sequences <=3 '
              'over ~45 operations, two signatures; the thorough tier adds thread '
              'schedules with a higher occurrence cap and three threads.')

HERE = os.path.abspath(__file__)
SIG1 = (1, 1, 1, True, (False,), True)   # f(p0, a='d_a', *va, k0, **kw)
TAGS = {'A': N.TagA, 'B': N.TagB}
VA = 'VA'


def bounds(tier):
  return dict(seq=3, vcap=3)


def alphabet(world):
  if world == 'pos':
    P = 2
    edits = [
        ('set', 'a', 'A'), ('set', 'a', 'B'), ('del', 'a'),
        ('set', 'k0', 'A'), ('del', 'k0'), ('set', 'x1', 'A'), ('del', 'x1'),
        ('seti', 0, 'A'), ('deli', 0), ('seti', -1, 'B'), ('deli', -1),
        ('sets', [VA, None, None], ['A', 'B']),
        ('sets', [VA, None, None], []),
        ('sets', [P, P, None], ['X']),          # insert at the front of *args
        ('sets', [P, P + 1, None], ['Y', 'Z']),  # replace one by two
        ('deli', P),                             # delete first vararg: shifts
        ('dels', [P, None, 2]),
        ('dels', [None, None, -1]),
        ('add_tag', 'a', 'A'), ('remove_tag', 'a', 'A'),
        ('set_tags', 'a', 'B'), ('clear_tags', 'a'),
        ('assign_new', 'a', 'A'), ('add_tag', 0, 'B'),
        ('set_tags', 1, 'A'), ('add_tag', 1, 'B'), ('clear_tags', 1),
        ('materialize_defaults',),
        ('copy_with', 'a', 'CW'), ('assign', 'k0', 'AS'),
        ('deepcopy_edit_copy', 'a'),
    ]
  else:
    edits = [
        ('set', 'x', 'A'), ('set', 'x', 'B'), ('del', 'x'),
        ('set', 'y', 'A'), ('del', 'y'),
        ('add_tag', 'x', 'A'), ('remove_tag', 'x', 'A'),
        ('set_tags', 'y', 'B'), ('clear_tags', 'x'),
        ('assign_new', 'y', 'B'), ('assign_new_unset', 'x', 'A'),
        ('materialize_defaults',),
        ('copy_with', 'x', 'CW'), ('assign', 'y', 'AS'),
        ('assign2', 'x', 'y'),
        ('deepcopy_edit_copy', 'x'), ('deepcopy_with_edit_copy', 'y'),
        ('update_callable', 'node_b', False),
        ('update_callable', 'only_x', True),
        ('update_callable', 'only_x', False),
        ('update_callable', 'node_kw', False),
    ]
  susp = []
  for e in edits[:6]:
    susp.append(('suspend',) + (e,))
  susp.append(('suspend_nested', edits[0]))
  susp.append(('suspend_after_disable', edits[0]))
  susp.append(('suspend_raise', edits[0]))
  susp.append(('disable',))
  susp.append(('enable',))
  return edits + susp


FRAME = []      # frame-condition failures noticed inside an operation


CALLABLES = {'node_b': N.node_b, 'only_x': N.only_x, 'node_kw': N.node_kw}


class Boom(Exception):
  pass


def apply_plain(cfg, e):
  """Applies one plain edit; returns the config that carries on (copy_with
  returns a new one)."""
  k = e[0]
  if k == 'set':
    setattr(cfg, e[1], e[2])
  elif k == 'del':
    delattr(cfg, e[1])
  elif k == 'seti':
    cfg[e[1]] = e[2]
  elif k == 'deli':
    del cfg[e[1]]
  elif k == 'sets':
    cfg[slice(*[fdl.VARARGS if x == VA else x for x in e[1]])] = list(e[2])
  elif k == 'dels':
    del cfg[slice(*[fdl.VARARGS if x == VA else x for x in e[1]])]
  elif k == 'add_tag':
    fdl.add_tag(cfg, e[1], TAGS[e[2]])
  elif k == 'remove_tag':
    fdl.remove_tag(cfg, e[1], TAGS[e[2]])
  elif k == 'set_tags':
    fdl.set_tags(cfg, e[1], {TAGS[e[2]]})
  elif k == 'clear_tags':
    fdl.clear_tags(cfg, e[1])
  elif k == 'assign_new':
    setattr(cfg, e[1], TAGS[e[2]].new('TV'))
  elif k == 'assign_new_unset':
    setattr(cfg, e[1], TAGS[e[2]].new())
  elif k == 'materialize_defaults':
    materialize.materialize_defaults(cfg)
  elif k == 'copy_with':
    return fdl.copy_with(cfg, **{e[1]: e[2]})
  elif k in ('deepcopy_edit_copy', 'deepcopy_with_edit_copy'):
    # the copy is edited; the original's history must not move
    import copy  # pylint: disable=g-import-not-at-top
    lens0 = {kk: len(v) for kk, v in cfg.__argument_history__.items()}
    c2 = (copy.deepcopy(cfg) if k == 'deepcopy_edit_copy'
          else fdl.deepcopy_with(cfg))
    setattr(c2, e[1], 'EDIT-ON-COPY')
    fdl.add_tag(c2, e[1], N.TagC)
    lens1 = {kk: len(v) for kk, v in cfg.__argument_history__.items()}
    if lens0 != lens1:
      FRAME.append(f'{k}: history of the original grew when its deep copy '
                   f'was edited: {lens0} -> {lens1}')
    c2_last = c2.__argument_history__[e[1]][-1]
    del c2_last
  elif k == 'assign':
    fdl.assign(cfg, **{e[1]: e[2]})
  elif k == 'assign2':
    fdl.assign(cfg, **{e[1]: 'M1', e[2]: 'M2'})
  elif k == 'update_callable':
    fdl.update_callable(cfg, CALLABLES[e[1]], drop_invalid_args=e[2])
  else:
    raise ValueError(e)
  return cfg


def apply_op(cfg, op):
  """Returns (cfg', outcome, suspended?)."""
  k = op[0]
  try:
    if k == 'suspend':
      with history.suspend_tracking():
        cfg = apply_plain(cfg, op[1])
      return cfg, 'ok', True
    if k == 'suspend_nested':
      with history.suspend_tracking():
        with history.suspend_tracking():
          pass
        # still inside the outer block: must still be suspended
        cfg = apply_plain(cfg, op[1])
      return cfg, 'ok', True
    if k == 'suspend_after_disable':
      was = history.tracking_enabled()
      history.set_tracking(enabled=False)
      try:
        with history.suspend_tracking():
          pass
        # the block restores what it found: still disabled here
        cfg = apply_plain(cfg, op[1])
      finally:
        history.set_tracking(enabled=was)
      return cfg, 'ok', True
    if k == 'suspend_raise':
      try:
        with history.suspend_tracking():
          raise Boom()
      except Boom:
        pass
      cfg = apply_plain(cfg, op[1])
      return cfg, 'ok', not history.tracking_enabled()
    if k == 'disable':
      history.set_tracking(enabled=False)
      return cfg, 'ok', True
    if k == 'enable':
      history.set_tracking(enabled=True)
      return cfg, 'ok', False
    suspended = not history.tracking_enabled()
    cfg = apply_plain(cfg, op)
    return cfg, 'ok', suspended
  except Boom:
    raise
  except Exception as e:  # pylint: disable=broad-except
    return cfg, 'raise:' + type(e).__name__, not history.tracking_enabled()


def snap(cfg):
  args = dict(cfg.__arguments__)
  tags = {k: frozenset(v) for k, v in cfg.__argument_tags__.items()}
  hist = {k: len(v) for k, v in cfg.__argument_history__.items()}
  return args, tags, hist


JUDGED_LOCATION = ('set', 'del', 'seti', 'deli', 'sets', 'dels',
                   'materialize_defaults', 'copy_with', 'assign', 'assign2',
                   'update_callable', 'assign_new', 'assign_new_unset')


class Monitor:

  def __init__(self):
    self.max_seq = -1
    self.seen = set()
    self.dirty = set()      # keys edited while suspended
    self.tag_dirty = set()

  def check(self, cfg_before, before, cfg, op, outcome, suspended, bad):
    args0, tags0, hist0 = before
    args1, tags1, hist1 = snap(cfg)
    h = cfg.__argument_history__
    base_op = op[1] if op[0].startswith('suspend') else op
    copied = cfg is not cfg_before
    new_entries = []
    for key, lst in h.items():
      n0 = 0 if copied and False else hist0.get(key, 0)
      if copied:
        # copy_with: the copy starts from a copy of the history
        n0 = hist0.get(key, 0)
      for e in lst[n0:]:
        new_entries.append((key, e))
    # --- suspension: nothing may be appended
    if suspended and op[0] not in ('enable',):
      if new_entries:
        return bad('entries-added-while-suspended',
                   f'{[(k, e.kind.name) for k, e in new_entries]}')
      for key in set(args0) | set(args1):
        if args0.get(key, _MISSING) is not args1.get(key, _MISSING):
          self.dirty.add(key)
      for key in set(tags0) | set(tags1):
        if tags0.get(key, frozenset()) != tags1.get(key, frozenset()):
          self.tag_dirty.add(key)
      return True
    # --- sequence ids
    ids = [e.sequence_id for _, e in new_entries]
    for key, lst in h.items():
      seq = [e.sequence_id for e in lst]
      if seq != sorted(seq) or len(set(seq)) != len(seq):
        return bad('sequence-ids-not-increasing-within-parameter',
                   f'{key}: {seq}')
    for i in ids:
      if i in self.seen:
        return bad('sequence-id-reused', f'{i}')
      if i <= self.max_seq:
        return bad('sequence-id-not-after-earlier-edits',
                   f'{i} <= {self.max_seq}')
    self.seen.update(ids)
    if ids:
      self.max_seq = max(self.max_seq, max(ids))
    # --- exactly one value entry per changed parameter
    changed = [k for k in set(args0) | set(args1)
               if args0.get(k, _MISSING) is not args1.get(k, _MISSING)]
    per_key = collections.Counter(
        k for k, e in new_entries if e.kind == history.ChangeKind.NEW_VALUE
        and k != '__fn_or_cls__')
    for k in changed:
      if per_key.get(k, 0) != 1:
        return bad(
            f'value-change-without-exactly-one-entry/{base_op[0]}',
            f'parameter {k!r} changed {args0.get(k, "<unset>")!r} -> '
            f'{args1.get(k, "<unset>")!r} but {per_key.get(k, 0)} value '
            f'entries were appended')
      self.dirty.discard(k)
    for k, n in per_key.items():
      if k not in changed:
        self.dirty.discard(k)
        if n > 1:
          return bad(f'duplicate-entries-for-unchanged-parameter/{base_op[0]}',
                     f'{k!r}: {n} entries')
    # program order: entries of one transition follow append order globally
    # --- last entries describe the current state
    for key in set(args1) | set(h.keys()):
      if key == '__fn_or_cls__' or key in self.dirty:
        continue
      vals = [e for e in h.get(key, []) if
              e.kind == history.ChangeKind.NEW_VALUE]
      if key in args1:
        if not vals:
          return bad('set-parameter-without-history', f'{key!r}')
        last = vals[-1].new_value
        if last is not args1[key] and last != args1[key]:
          return bad(f'history-does-not-end-with-current-value/{base_op[0]}',
                     f'{key!r}: history ends with {last!r}, stored value '
                     f'{args1[key]!r}')
      elif vals and vals[-1].new_value is not history.DELETED:
        return bad(f'unset-parameter-history-does-not-end-with-DELETED/'
                   f'{base_op[0]}', f'{key!r}: ends with '
                   f'{vals[-1].new_value!r}')
    for key, ts in tags1.items():
      if key in self.tag_dirty:
        continue
      tent = [e for e in h.get(key, []) if
              e.kind == history.ChangeKind.UPDATE_TAGS]
      if tent:
        if tent[-1].new_value != ts:
          return bad(f'history-does-not-end-with-current-tags/{base_op[0]}',
                     f'{key!r}: history ends with '
                     f'{sorted(t.name for t in tent[-1].new_value)}, current '
                     f'{sorted(t.name for t in ts)}')
      elif ts:
        return bad('tagged-parameter-without-tag-history', f'{key!r}')
    for key in set(tags0) | set(tags1):
      if tags0.get(key, frozenset()) != tags1.get(key, frozenset()):
        self.tag_dirty.discard(key)
    # --- attribution
    if base_op[0] in JUDGED_LOCATION:
      for key, e in new_entries:
        if e.kind != history.ChangeKind.NEW_VALUE:
          continue
        fn = e.location.filename
        if os.path.abspath(fn) != HERE:
          return bad(f'edit-attributed-to-wrong-file/{base_op[0]}',
                     f'{key!r}: {e.location}')
    return True


_MISSING = object()


def initial(world):
  if world == 'pos':
    return fdl.Config(S.fn(SIG1), 'P', k0='K')
  return fdl.Config(N.node, x='X0')


def state_key(cfg, mon):
  args, tags, _ = snap(cfg)
  return (canon.callable_key(cfg.__fn_or_cls__),
          tuple(sorted(((str(type(k)), str(k)), repr(v))
                       for k, v in args.items())),
          tuple(sorted((str(k), tuple(sorted(t.name for t in v)))
                       for k, v in tags.items() if v)),
          history.tracking_enabled(), tuple(sorted(map(str, mon.dirty))),
          tuple(sorted(map(str, mon.tag_dirty))))


USER_MODULES = ['config', 'copying', 'daglish', 'history', 'materialize',
                'mutate_buildable', 'experimental.auto_config']


def run_locations(res):
  """Edits made from user files whose paths end like Fiddle's own internal
  files (pkg/_src/config.py ...) are still attributed to those user files
  and functions."""
  import importlib  # pylint: disable=g-import-not-at-top
  for mname in USER_MODULES:
    mod = importlib.import_module('vfx._src.' + mname)
    want_file = os.path.abspath(mod.__file__)
    res.states += 1
    res.nontrivial += 1
    cfg = mod.construct(N.node)
    checks = [('construct', cfg, 'x')]
    for ename, fn in mod.EDITS.items():
      c = fdl.Config(N.node_pos if ename == 'set_item' else N.node, 'p')
      out = fn(c)
      key = 0 if ename == 'set_item' else 'x'
      checks.append((ename, out if out is not None else c, key))
    for ename, c, key in checks:
      res.transitions += 1
      res.evals += 1
      e = c.__argument_history__[key][-1]
      case = {'user_module': mname, 'edit': ename}
      if (os.path.abspath(e.location.filename) != want_file or
          e.location.function_name != ename):
        res.violation(
            f'C16/edit-attributed-to-wrong-file/user-file-named-like-internal',
            f'{case}: entry {e.kind.name} {e.new_value!r} attributed to '
            f'{e.location}, made in {want_file}:{ename}', case)
      res.outcomes['location:ok'] += 1


def reported_view(cfg):
  """What a configuration reports about itself, beyond stored values."""
  try:
    pos = repr(cfg[:])
  except Exception as e:  # pylint: disable=broad-except
    pos = 'raises ' + type(e).__name__
  return (cfg.__fn_or_cls__, pos, repr(fdl.ordered_arguments(cfg)),
          tuple(sorted(dir(cfg))), str(cfg.__signature_info__.signature),
          {k: len(v) for k, v in cfg.__argument_history__.items()})


def replay_hist(world, hist, alpha, res, case, check_all=True):
  """Runs the op sequence on a fresh config with a fresh monitor. Returns
  (cfg, monitor, ok)."""
  history.set_tracking(enabled=True)
  cfg = initial(world)
  mon = Monitor()
  for lst in cfg.__argument_history__.values():
    for e in lst:
      mon.seen.add(e.sequence_id)
      mon.max_seq = max(mon.max_seq, e.sequence_id)
  ok = True
  for n, i in enumerate(hist):
    op = alpha[i]
    before = snap(cfg)
    cfg_before = cfg
    if len([v for k, v in before[0].items() if isinstance(k, int)]) > 6:
      return cfg, mon, False
    view_before = reported_view(cfg)
    del FRAME[:]
    cfg, outcome, suspended = apply_op(cfg, op)
    if FRAME:
      res.violation(f'C16/edit-of-a-deep-copy-changed-the-original-history/'
                    f'{op[0]}', f'{case} at op #{n} {op}: {FRAME[0]}', case)
      ok = False
      break
    res.transitions += 1
    res.outcomes[f'{op[0]}:{outcome[:5]}'] += 1

    def bad(key, msg):
      res.violation(f'C16/{key}', f'{case} at op #{n} {op}: {msg}', case)
      return False

    if outcome != 'ok' and (op[0] not in ('suspend', 'suspend_nested',
                                           'suspend_after_disable')):
      # a rejected edit leaves what the configuration reports (callable,
      # signature, positional view, dir) and its history untouched
      view_after = reported_view(cfg)
      # fdl.assign is documented as a sequence of setattr calls: the ones
      # before the rejected one stay applied
      if view_after != view_before and op[0] not in ('assign', 'assign2'):
        diff = [i for i, (a, b_) in enumerate(zip(view_before, view_after))
                if a != b_]
        names = ['callable', 'cfg[:]', 'ordered_arguments', 'dir',
                 'signature', 'history-lengths']
        bad(f'rejected-edit-changed-state/{op[0]}/'
            f'{"+".join(names[i] for i in diff)}',
            f'before {[view_before[i] for i in diff]} after '
            f'{[view_after[i] for i in diff]}')
        ok = False
        break
    if check_all or n == len(hist) - 1:
      if not mon.check(cfg_before, before, cfg, op, outcome, suspended, bad):
        ok = False
        break
  return cfg, mon, ok


def explore(world, b, res):
  alpha = alphabet(world)
  seen = set()
  frontier = collections.deque([()])
  while frontier:
    hist = frontier.popleft()
    case = {'world': world, 'ops': [list(map(_j, alpha[i])) for i in hist]}
    cfg, mon, ok = replay_hist(world, hist, alpha, res, case)
    tracking_after = history.tracking_enabled()
    history.set_tracking(enabled=True)
    if not ok:
      continue
    k = state_key(cfg, mon) + (tracking_after,)
    if k in seen:
      continue
    seen.add(k)
    res.states += 1
    if hist:
      res.nontrivial += 1
    # history never influences equality or building
    if len(hist) == b['seq'] and world == 'kw' and cfg.__fn_or_cls__ in (
        N.node, N.node_b):
      twin = fdl.Config(cfg.__fn_or_cls__, **{
          k_: v for k_, v in cfg.__arguments__.items()})
      for k_, ts in cfg.__argument_tags__.items():
        for t in ts:
          fdl.add_tag(twin, k_, t)
      if not (twin == cfg):
        res.violation('C16/history-influences-equality', f'{case}', case)
    if len(hist) < b['seq']:
      for i in range(len(alpha)):
        frontier.append(hist + (i,))
  return len(seen)


def _j(x):
  return list(map(_j, x)) if isinstance(x, tuple) else x


def units(tier, seed):
  b = bounds(tier)
  out = []
  for world in ('pos', 'kw'):
    n = len(alphabet(world))
    for first in range(n):
      out.append((world, first))
  out.append(('threads', 2, 1, None))
  out.append(('threads', 2, 2, 1))
  out.append(('threads', 3, 1, 1))
  out.append(('locations',))
  # one thread edits inside suspend_tracking blocks while the other does not
  out.append(('threads', 2, 1, None, 'suspend'))
  out.append(('threads', 2, 2, 1, 'suspend'))
  if tier != 'quick':
    out.append(('threads', 2, 2, 2))
    out.append(('threads', 3, 1, 2, 'suspend'))
  return out


# ------------------------------------------------------------ thread clause
def thread_program(cfg, k, suspend=False):
  """Edits its own configuration; returns the sequence ids in program order."""
  ids = []
  if suspend:
    with history.suspend_tracking():
      cfg.x = f't{k}-suspended'
      with history.suspend_tracking():
        cfg.y = f't{k}-suspended-nested'
      fdl.add_tag(cfg, 'x', N.TagC)

  def last_id():
    return max(e.sequence_id for lst in cfg.__argument_history__.values()
               for e in lst)

  cfg.x = f't{k}-1'
  ids.append(last_id())
  fdl.add_tag(cfg, 'y', N.TagA)
  ids.append(last_id())
  del cfg.x
  ids.append(last_id())
  cfg.y = f't{k}-2'
  ids.append(last_id())
  return ids


def _hist_shape(cfg):
  return {str(k): [(e.kind.name, repr(e.new_value)) for e in v]
          for k, v in cfg.__argument_history__.items()}


def run_threads(nthreads, bound, res, cap=None, mode='plain'):
  from mc import sched  # pylint: disable=g-import-not-at-top
  stats = {'n': 0}
  vectors = set()
  susp = lambda k: mode == 'suspend' and k % 2 == 1
  # what each thread's configuration records when the thread runs alone
  alone = []
  for k in range(nthreads):
    c = fdl.Config(N.node)
    thread_program(c, k, susp(k))
    alone.append(_hist_shape(c))

  def make_bodies():
    history.set_tracking(enabled=True)
    cfgs = [fdl.Config(N.node) for _ in range(nthreads)]
    bodies = [(lambda c=c, k=k: (thread_program(c, k, susp(k)), c))
              for k, c in enumerate(cfgs)]
    return bodies

  def on_execution(ex, key):
    stats['n'] += 1
    res.transitions += 1
    order, switches = key
    case = {'threads': nthreads, 'order': list(order), 'mode': mode,
            'switches': {str(k): v for k, v in switches.items()}}
    all_ids = []
    if not history.tracking_enabled():
      res.violation('C16/threads/main-thread-tracking-flag-changed',
                    f'{case}', case)
      return
    for tid, r in enumerate(ex.results):
      if r[0] != 'ok':
        res.violation('C16/threads/thread-raised', f'{case}: {r}', case)
        return
      ids, cfg = r[1]
      if _hist_shape(cfg) != alone[tid]:
        res.violation(
            'C16/threads/history-differs-from-the-thread-running-alone',
            f'{case}: thread {tid}: {_hist_shape(cfg)} alone: {alone[tid]}',
            case)
        return
      if ids != sorted(ids) or len(set(ids)) != len(ids):
        res.violation('C16/threads/ids-not-increasing-in-program-order',
                      f'{case}: thread {tid}: {ids}', case)
        return
      for key_, lst in cfg.__argument_history__.items():
        all_ids += [e.sequence_id for e in lst]
      vals = [e for e in cfg.__argument_history__['y']
              if e.kind == history.ChangeKind.NEW_VALUE]
      if not vals or vals[-1].new_value != cfg.__arguments__.get('y'):
        res.violation('C16/threads/history-does-not-end-with-current-value',
                      f'{case}: thread {tid}', case)
        return
    if len(set(all_ids)) != len(all_ids):
      res.violation('C16/threads/sequence-ids-not-unique-across-threads',
                    f'{case}: {sorted(all_ids)}', case)
      return
    vectors.add(tuple(tuple(x - min(r[1][0]) for x in r[1][0])
                      for r in ex.results))

  r = sched.explore(make_bodies, bound, on_execution, occurrence_cap=cap)
  res.states += len(vectors)
  res.nontrivial += stats['n']
  res.evals += stats['n']
  res.outcomes[f'threads{nthreads}:{mode}:bound{bound}:cap{cap}'] += stats['n']
  res.sample({'threads': nthreads, 'preemption_bound': bound,
              'schedules': stats['n'], 'points': r['max_points']})


def run_unit(unit, tier, seed):
  b = bounds(tier)
  res = core.Result()
  if unit[0] == 'locations':
    run_locations(res)
    return res
  if unit[0] == 'threads':
    run_threads(unit[1], unit[2], res, unit[3],
                unit[4] if len(unit) > 4 else 'plain')
    history.set_tracking(enabled=True)
    return res
  world, first = unit
  alpha = alphabet(world)
  # BFS below the given first operation (the root state is covered by first=0)
  seen = set()
  frontier = collections.deque([(first,)] + ([()] if first == 0 else []))
  while frontier:
    hist = frontier.popleft()
    case = {'world': world, 'ops': [_j(alpha[i]) for i in hist]}
    try:
      cfg, mon, ok = replay_hist(world, hist, alpha, res, case)
    finally:
      tracking_after = history.tracking_enabled()
      history.set_tracking(enabled=True)
    if not ok:
      continue
    k = state_key(cfg, mon) + (tracking_after,)
    if k in seen:
      continue
    seen.add(k)
    res.states += 1
    if hist:
      res.nontrivial += 1
    if len(hist) < b['seq']:
      for i in range(len(alpha)):
        frontier.append(hist + (i,))
  res.evals = res.transitions
  res.sample({'world': world, 'first_op': _j(alpha[first]),
              'states_below': len(seen)})
  return res


def replay(case):
  res = core.Result()
  if 'threads' in case:
    run_threads(case['threads'], 2, res, None, case.get('mode', 'plain'))
    return res
  if 'user_module' in case:
    run_locations(res)
    for v in res.violations:
      print(v['what'])
    return res
  world = case['world']
  alpha = alphabet(world)
  idx = []
  for op in case['ops']:
    op = _t(op)
    idx.append(alpha.index(op))
  try:
    cfg, mon, ok = replay_hist(world, tuple(idx), alpha, res, case)
    print('final config:', cfg)
    for k, lst in cfg.__argument_history__.items():
      print('  history', k, [(e.sequence_id, e.kind.name, e.new_value,
                              os.path.basename(e.location.filename))
                             for e in lst])
  finally:
    history.set_tracking(enabled=True)
  return res


def _t(x):
  return tuple(_t(i) if isinstance(i, list) and i and isinstance(
      i[0], (str,)) and i[0] in ('set', 'del', 'seti', 'deli', 'sets', 'dels',
                                 'add_tag') else i for i in x) if isinstance(
                                     x, list) else x
