"""C17: read-only and copy-returning APIs never modify their input."""
from __future__ import annotations

import copy
import pickle

import fiddle as fdl
from fiddle import daglish
from fiddle import diffing
from fiddle import graphviz
from fiddle import printing
from fiddle import selectors
from fiddle import tagging
from fiddle import validation
from fiddle._src.validation import check_types
from fiddle.codegen import codegen
from fiddle.codegen import codegen_diff
from fiddle.debug import grep as grep_lib
from fiddle.experimental import dataclasses as fdl_dc
from fiddle.experimental import serialization
from fiddle.experimental import transform
from fiddle.experimental import visualize
from fiddle.experimental import yaml_serialization
from mc import canon
from mc import core
from mc import shapes
from vfx import nodes as N

PROP = 'C17'
LEVEL = 'model_checking'
TECHNIQUE = ('bounded-exhaustive enumeration of configurations x the complete '
             'table of read-only / copy-returning entry points; canonical form '
             'and object identities of the input compared before/after')
RULE = ('every DAG shape over {Config, Partial, positional Config, list, dict, '
        'tuple, Config of a callable that modifies the containers it receives, '
        'stand-alone TaggedValue with / without value} up to N nodes, leaves '
        '{short string, string longer than the trimming threshold, value equal '
        'to a default; for the length-measuring entry points also strings of '
        'exactly the threshold length / one less and values whose repr is '
        'longer than their str}, with and without tags '
        'x every entry point of the API table (each with its option '
        'settings); distinct by (shape, tag variant, entry point); non-trivial '
        'when the shape has a shared or nested node')
ASSUMPTIONS = [
    'an exception raised by an API is not a violation of this property',
    'unchanged means: same canonical form including tags, same identity of '
    'every reachable Buildable/list/dict and of every stored argument value, '
    'same tag-set contents; argument history is not compared for APIs that '
    'the statement does not describe as history-neutral (none of these APIs '
    'may add value entries, which is checked through history length)',
]
LEVEL_TEXT = ('Each API of the table is executed on every bounded '
              'configuration and the input is compared before/after by '
              'canonical form and identity snapshot.')
LEVEL_NOTE = ('Trusted: mc.canon, the snapshot function in this file. Bounds: '
              'N<=2 full menu + N=3 reduced menu; the thorough tier uses three '
              'leaves and a larger reduced menu; '
              '~70 entry-point/option combinations.')

MENU = ['cfg', 'par', 'cfgpos', 'list2', 'dict1', 'tuple1']
ROOTS = ['cfg', 'par', 'cfgpos']
LONG = 'long-' + 'x' * 90
LEAVES = [LONG, 'dy', 'L1']
# further leaf alphabets for the entry points that measure printed lengths
# (thresholds used below: 30 and 20): strings of exactly the threshold
# length and one less, text whose repr is longer than its str
LEAFSETS = [LEAVES,
            ['x' * 30, 'x' * 29, 'x' * 28],
            ['a\n' * 12, __import__('pathlib').PurePosixPath('p' * 27), 'q'],
            ['y' * 20, 'y' * 19, 'y' * 18]]
LENGTH_APIS = ('visualize.trim_long_fields', 'graphviz.render(max_str_length)',
               'as_str_flattened', 'graphviz.render', 'repr')
MUT_MENU = ['cfgmut', 'cfg', 'list2', 'dict1', 'tv', 'list0', 'dict0']
IMM_MENU = ['cfgimm', 'cfg', 'list2']
NCHUNK = 48


def bounds(tier):
  if tier == 'quick':
    return dict(n=2, nl=2, n_small=3, small_menu=['cfg', 'list2'], small_nl=1)
  return dict(n=2, nl=3, n_small=3, small_menu=['cfg', 'par', 'list2'],
              small_nl=2)


def units(tier, seed):
  return list(range(NCHUNK))


def all_cases(b):
  ks = shapes.std_kinds(MENU)
  for s in shapes.all_shapes(ks, b['n'], b['nl'], root_kinds=ROOTS):
    for tagv in ('none', 'tags', 'onetag'):
      yield 'main', s, tagv
  ks2 = shapes.std_kinds(b['small_menu'])
  for s in shapes.enumerate_shapes(ks2, b['n_small'], b['small_nl'],
                                   root_kinds=ROOTS):
    for tagv in ('none', 'tags'):
      yield 'small', s, tagv
  # callables that modify the containers they receive; stand-alone (unset)
  # TaggedValues inside containers
  ks3 = shapes.std_kinds(MUT_MENU)
  for s in shapes.all_shapes(ks3, 3 if b['n'] == 2 else 4, 1,
                             root_kinds=['cfgmut', 'cfg']):
    if any(k in ('cfgmut', 'tv') for k, _ in s):
      yield 'mut', s, 'none'
  # a callable registered as returning an immutable value
  for s in shapes.all_shapes(shapes.std_kinds(IMM_MENU), 2, 2,
                             root_kinds=['cfgimm', 'cfg']):
    if any(k == 'cfgimm' for k, _ in s):
      for tagv in ('none', 'tags'):
        yield 'imm', s, tagv


_BY = {}


def make(menu_name, shape, tagv, b, leafset=0):
  menu = {'main': MENU, 'mut': MUT_MENU, 'imm': IMM_MENU}.get(
      menu_name) or b['small_menu']
  key = tuple(menu)
  if key not in _BY:
    _BY[key] = {k.name: k for k in shapes.std_kinds(menu)}
  objs = shapes.materialize(shape, _BY[key], LEAFSETS[leafset])
  root = objs[-1]
  if tagv == 'onetag':
    # exactly one tagged argument in the whole graph, with a tag that has
    # parent tags (only the tag-related entry points are run on it)
    names = _named(root)
    if names:
      fdl.add_tag(root, names[-1], N.TagD)
  if tagv == 'tags':
    for o in objs:
      if isinstance(o, fdl.Buildable) and not isinstance(
          o, tagging.TaggedValueCls):
        names = _named(o)
        if names:
          fdl.add_tag(o, names[0], N.TagA)
          fdl.add_tag(o, names[-1], N.TagB)
  return root


def _named(b):
  return [n for n, p in b.__signature_info__.signature.parameters.items()
          if p.kind in (p.POSITIONAL_OR_KEYWORD, p.KEYWORD_ONLY)]


def snapshot(root):
  """id -> description of every reachable mutable object (pinned by root)."""
  out = {}

  def walk(v):
    if isinstance(v, fdl.Buildable):
      if id(v) in out:
        return
      out[id(v)] = (
          'B', type(v).__name__, id(v.__fn_or_cls__),
          tuple((k, id(a)) for k, a in v.__arguments__.items()),
          tuple(sorted((str(k), tuple(sorted(str(getattr(t, 'name', None) or repr(t)) for t in ts)))
                       for k, ts in v.__argument_tags__.items() if ts)),
          tuple(sorted((str(k), len(h))
                       for k, h in v.__argument_history__.items())))
      for a in v.__arguments__.values():
        walk(a)
    elif isinstance(v, list):
      if id(v) in out:
        return
      out[id(v)] = ('list', tuple(id(a) for a in v))
      for a in v:
        walk(a)
    elif isinstance(v, dict):
      if id(v) in out:
        return
      out[id(v)] = ('dict', tuple((k, id(a)) for k, a in v.items()))
      for a in v.values():
        walk(a)
    elif isinstance(v, tuple):
      for a in v:
        walk(a)

  walk(root)
  return out


def make_other(cfg):
  """A related configuration for the two-argument APIs: a deep copy with a
  changed leaf, a removed tag and an added tag."""
  other = copy.deepcopy(cfg)
  names = _named(other)
  if names:
    setattr(other, names[-1], 'CHANGED')
    try:
      fdl.remove_tag(other, names[0], N.TagA)
    except Exception:  # pylint: disable=broad-except
      pass
    fdl.add_tag(other, names[0], N.TagC)
  return other


def first_nested_buildable(cfg):
  for v, p in daglish.iterate(cfg):
    if p and isinstance(v, fdl.Buildable):
      return v
  return None


def api_table():
  """name -> function(cfg, other). `other` is a related config."""
  t = {}
  t['build'] = lambda c, o: fdl.build(c)
  t['repr'] = lambda c, o: repr(c)
  t['str'] = lambda c, o: str(c)
  t['eq'] = lambda c, o: (c == o, c != o, o == c)
  t['hash_dir'] = lambda c, o: dir(c)
  for i, kw in enumerate([
      {}, dict(include_defaults=True), dict(include_unset=True),
      dict(include_equal_to_default=False), dict(include_positional=False),
      dict(include_var_keyword=False)]):
    t[f'ordered_arguments#{i}'] = (
        lambda c, o, kw=kw: fdl.ordered_arguments(c, **kw))
  t['as_str_flattened'] = lambda c, o: printing.as_str_flattened(c)
  t['as_str_flattened_types'] = lambda c, o: printing.as_str_flattened(
      c, include_types=False)
  t['as_dict_flattened'] = lambda c, o: printing.as_dict_flattened(c)
  t['history_per_leaf_parameter'] = (
      lambda c, o: printing.history_per_leaf_parameter(c))
  t['graphviz.render'] = lambda c, o: graphviz.render(c)
  t['graphviz.render(max_depth)'] = lambda c, o: graphviz.render(
      c, max_depth=1)
  t['graphviz.render(max_str_length)'] = lambda c, o: graphviz.render(
      c, max_str_length=20)
  t['graphviz.render_diff(old,new)'] = lambda c, o: graphviz.render_diff(
      old=c, new=o)
  t['graphviz.render_diff(new=input)'] = lambda c, o: graphviz.render_diff(
      old=o, new=c)
  t['graphviz.render_diff(trim)'] = lambda c, o: graphviz.render_diff(
      old=c, new=o, trim=True)
  t['graphviz.render_diff(diff,old)'] = lambda c, o: graphviz.render_diff(
      diffing.build_diff(c, o), old=c)
  t['visualize.trimmed'] = lambda c, o: visualize.trimmed(
      c, [x for x in [first_nested_buildable(c)] if x is not None])
  t['visualize.with_defaults_trimmed'] = (
      lambda c, o: visualize.with_defaults_trimmed(c))
  t['visualize.with_defaults_trimmed(deep)'] = (
      lambda c, o: visualize.with_defaults_trimmed(
          c, remove_deep_defaults=True))
  t['visualize.depth_over'] = lambda c, o: visualize.depth_over(c, 1)
  t['visualize.structure'] = lambda c, o: visualize.structure(c)
  t['visualize.trim_fields_to'] = lambda c, o: visualize.trim_fields_to(
      c, _named(c)[:1])
  t['visualize.trim_fields_to(by_id)'] = (
      lambda c, o: visualize.trim_fields_to(c, fields_by_config_id={
          id(x): [] for x in [first_nested_buildable(c)] if x is not None}))
  t['visualize.trim_long_fields'] = (
      lambda c, o: visualize.trim_long_fields(c, 30))
  t['transform.unintern_tuples_of_literals'] = (
      lambda c, o: transform.unintern_tuples_of_literals(c))
  t['transform.replace_unconfigured_partials_with_callables'] = (
      lambda c, o: transform.replace_unconfigured_partials_with_callables(c))
  t['serialization.dump_json'] = lambda c, o: serialization.dump_json(c)
  t['serialization.clear_argument_history'] = (
      lambda c, o: serialization.clear_argument_history(c))
  t['yaml.dump_yaml'] = lambda c, o: yaml_serialization.dump_yaml(c)
  t['tagging.list_tags'] = lambda c, o: tagging.list_tags(c)
  t['tagging.list_tags(superclasses)'] = lambda c, o: tagging.list_tags(
      c, add_superclasses=True)
  t['tagging.materialize_tags'] = lambda c, o: tagging.materialize_tags(c)
  t['tagging.materialize_tags(tags)'] = (
      lambda c, o: tagging.materialize_tags(c, tags={N.TagA}))
  t['tagging.materialize_tags(clear_field_tags)'] = (
      lambda c, o: tagging.materialize_tags(c, clear_field_tags=True))
  t['tagging.get_tags'] = lambda c, o: [
      fdl.get_tags(c, n) for n in _named(c)]
  t['diffing.build_diff(old=input)'] = lambda c, o: diffing.build_diff(c, o)
  t['diffing.build_diff(new=input)'] = lambda c, o: diffing.build_diff(o, c)
  t['diffing.align_by_id'] = lambda c, o: diffing.align_by_id(c, o)
  t['diffing.align_heuristically'] = (
      lambda c, o: diffing.align_heuristically(c, o))
  t['diffing.align_heuristically(new=input)'] = (
      lambda c, o: diffing.align_heuristically(o, c))
  t['diffing.skeleton_from_diff'] = lambda c, o: diffing.skeleton_from_diff(
      diffing.build_diff(o, c))
  t['diffing.apply_diff(new=input)'] = lambda c, o: diffing.apply_diff(
      diffing.build_diff(o, c), o)
  t['validation.check_no_custom_objects'] = (
      lambda c, o: validation.check_no_custom_objects(c))
  t['validation.get_config_errors'] = (
      lambda c, o: validation.get_config_errors(c))
  t['validation.check_baseline_style'] = (
      lambda c, o: validation.check_baseline_style(c))
  t['validation.check_types'] = lambda c, o: check_types.check_types(c)
  t['validation.get_type_errors'] = (
      lambda c, o: check_types.get_type_errors(c))
  t['codegen.new_codegen'] = lambda c, o: codegen.new_codegen(c)
  t['codegen.new_codegen(history)'] = lambda c, o: codegen.new_codegen(
      c, include_history=True)
  t['codegen.auto_config_codegen'] = (
      lambda c, o: codegen.auto_config_codegen(c))
  t['codegen.auto_config_codegen(complexity)'] = (
      lambda c, o: codegen.auto_config_codegen(
          c, max_expression_complexity=1))
  t['codegen.auto_config_codegen(sub_fixtures)'] = (
      lambda c, o: codegen.auto_config_codegen(c, sub_fixtures={
          'sub_fixture': x for x in [first_nested_buildable(c)]
          if x is not None}))
  t['codegen.codegen_dot_syntax'] = (
      lambda c, o: '\n'.join(codegen.codegen_dot_syntax(c).lines()))
  t['codegen_diff.fiddler_from_diff(old=input)'] = (
      lambda c, o: codegen_diff.fiddler_from_diff(
          diffing.build_diff(c, o), old=c).code)
  t['codegen_diff.fiddler_from_diff(new=input)'] = (
      lambda c, o: codegen_diff.fiddler_from_diff(
          diffing.build_diff(o, c), old=o).code)
  t['select.iterate'] = lambda c, o: list(selectors.select(c, N.node))
  t['select.get'] = lambda c, o: list(selectors.select(c, N.node).get('x'))
  t['select.tag.iterate'] = lambda c, o: list(selectors.select(c, tag=N.TagA))
  t['select.partial_type'] = lambda c, o: list(selectors.select(
      c, N.node, buildable_type=fdl.Partial, check_nonempty=False))
  t['grep'] = lambda c, o: grep_lib.grep(c, 'L1|node', output_fn=lambda s: 0)
  t['cast'] = lambda c, o: fdl.cast(fdl.Partial, c)
  t['cast(same type)'] = lambda c, o: fdl.cast(type(c), c)
  t['copy_with'] = lambda c, o: fdl.copy_with(c, **{
      n: 'NEW' for n in _named(c)[:1]})
  t['deepcopy_with'] = lambda c, o: fdl.deepcopy_with(c, **{
      n: 'NEW' for n in _named(c)[:1]})
  t['deepcopy_with(last)'] = lambda c, o: fdl.deepcopy_with(c, **{
      n: 'NEW' for n in _named(c)[-1:]})
  t['deepcopy_with(tagged value)'] = lambda c, o: fdl.deepcopy_with(c, **{
      n: N.TagD.new('NEW') for n in _named(c)[:1]})
  t['copy_with(tagged value)'] = lambda c, o: fdl.copy_with(c, **{
      n: N.TagD.new('NEW') for n in _named(c)[-1:]})
  t['copy.copy'] = lambda c, o: copy.copy(c)
  t['copy.deepcopy'] = lambda c, o: copy.deepcopy(c)
  t['pickle'] = lambda c, o: pickle.loads(pickle.dumps(c))
  t['daglish.iterate'] = lambda c, o: list(daglish.iterate(c))
  t['daglish.iterate(unmemoized)'] = lambda c, o: list(daglish.iterate(
      c, memoized=False))
  t['daglish.collect_paths_by_id'] = (
      lambda c, o: daglish.collect_paths_by_id(c, memoizable_only=True))
  t['convert_dataclasses_to_configs'] = (
      lambda c, o: fdl_dc.convert_dataclasses_to_configs(c, allow_post_init=True))
  return t


COPY_APIS = {'cast', 'cast(same type)', 'copy_with', 'deepcopy_with', 'deepcopy_with(last)',
             'deepcopy_with(tagged value)', 'copy_with(tagged value)',
             'copy.copy', 'copy.deepcopy', 'pickle'}
DEEP_COPY_APIS = {'deepcopy_with', 'deepcopy_with(last)',
                  'deepcopy_with(tagged value)', 'copy.deepcopy', 'pickle'}


def post_edit(out, deep):
  names = _named(out)
  for n in names:
    fdl.add_tag(out, n, N.TagD)
  if names:
    setattr(out, names[0], 'POST-EDIT')
    fdl.clear_tags(out, names[-1])
  if not deep:
    return
  seen = set()

  def walk(v, top):
    if id(v) in seen:
      return
    seen.add(id(v))
    if isinstance(v, fdl.Buildable):
      children = list(v.__arguments__.values())
      if not top:
        ns = _named(v)
        if ns:
          fdl.add_tag(v, ns[0], N.TagD)
          setattr(v, ns[-1], 'POST-EDIT-NESTED')
      for a in children:
        walk(a, False)
    elif isinstance(v, list):
      children = list(v)
      v.append('POST-EDIT-APPENDED')
      for a in children:
        walk(a, False)
    elif isinstance(v, dict):
      children = list(v.values())
      v['POST-EDIT-KEY'] = 1
      for a in children:
        walk(a, False)
    elif isinstance(v, tuple):
      for a in v:
        walk(a, False)

  walk(out, True)


API = None


def check_case(menu_name, shape, tagv, b, res, only=None, leafsets=None):
  global API
  if API is None:
    API = api_table()
  if leafsets is None:
    leafsets = range(len(LEAFSETS)) if (
        menu_name == 'main' and tagv != 'onetag') else (0,)
  for leafset in leafsets:
    _check_case(menu_name, shape, tagv, b, res, only, leafset)


def _check_case(menu_name, shape, tagv, b, res, only, leafset):
  for name, fn in API.items():
    if only and name != only:
      continue
    if leafset and name not in LENGTH_APIS:
      continue
    if tagv == 'onetag' and 'tag' not in name.lower():
      continue
    cfg = make(menu_name, shape, tagv, b, leafset)
    other = make_other(cfg)
    before_c = canon.canon_cfg(cfg)
    before_s = snapshot(cfg)
    try:
      out = fn(cfg, other)
      outcome = 'ok'
    except Exception as e:  # pylint: disable=broad-except
      outcome = 'raise:' + type(e).__name__
    res.transitions += 1
    res.outcomes[f'{name}:{outcome[:12]}'] += 1
    after_c = canon.canon_cfg(cfg)
    after_s = snapshot(cfg)
    case = {'menu': menu_name, 'shape': shape, 'tags': tagv, 'api': name,
            'leafset': leafset}
    if after_c != before_c:
      res.violation(
          f'C17/input-modified/{name}',
          f'{case}: before {before_c}\n after {after_c}', case)
    elif after_s != before_s:
      diff = [(before_s.get(k), after_s.get(k))
              for k in set(before_s) | set(after_s)
              if before_s.get(k) != after_s.get(k)]
      res.violation(
          f'C17/input-identity-or-history-changed/{name}',
          f'{case}: {diff[:2]}', case)
    elif outcome == 'ok' and name in COPY_APIS and out is cfg:
      res.violation(f'C17/copy-returning-api-returned-its-input/{name}',
                    f'{case}', case)
    elif (outcome == 'ok' and name in COPY_APIS and
          isinstance(out, fdl.Buildable) and out is not cfg):
      # what a copy-returning API hands back can be edited without the
      # input noticing: top-level arguments and tags for every such API,
      # everything reachable for the deep-copying ones
      try:
        post_edit(out, deep=name in DEEP_COPY_APIS)
      except Exception:  # pylint: disable=broad-except
        pass
      res.transitions += 1
      if canon.canon_cfg(cfg) != before_c or snapshot(cfg) != before_s:
        res.violation(
            f'C17/editing-the-returned-copy-changed-the-input/{name}',
            f'{case}: input now {cfg!r}', case)


def run_unit(unit, tier, seed):
  b = bounds(tier)
  res = core.Result()
  for idx, (menu_name, shape, tagv) in enumerate(all_cases(b)):
    if idx % NCHUNK != unit:
      continue
    res.states += 1
    res.evals += 1
    if len(shape) > 1:
      res.nontrivial += 1
    check_case(menu_name, shape, tagv, b, res)
    if idx % 997 == 0:
      res.sample({'shape': shape, 'tags': tagv, 'apis': len(API)})
  return res


def _shape(x):
  return tuple((k, tuple(tuple(s) if isinstance(s, list) else s for s in sl))
               for k, sl in x)


def replay(case):
  res = core.Result()
  b = bounds('thorough')
  shape = _shape(case['shape'])
  cfg = make(case['menu'], shape, case['tags'], bounds('quick'),
             case.get('leafset', 0))
  print('config:', cfg, '\napi:', case['api'])
  for tier in ('quick', 'thorough'):
    try:
      check_case(case['menu'], shape, case['tags'], bounds(tier), res,
                 only=case['api'], leafsets=(case.get('leafset', 0),))
    except Exception as e:  # pylint: disable=broad-except
      print('replay with', tier, 'bounds failed:', e)
  return res
