"""C18: printed paths are valid override paths; flag directives apply in order."""
from __future__ import annotations

import ast
import copy
import itertools

from absl import flags as absl_flags
import fiddle as fdl
from fiddle import printing
from fiddle._src.absl_flags import flags as fdl_flags
from fiddle._src.absl_flags import utils
from mc import canon
from mc import core
from mc import shapes
from vfx import flagmod
from vfx import nodes as N

PROP = 'C18'
LEVEL = 'model_checking'
TECHNIQUE = ('bounded-exhaustive enumeration of configurations (printed path '
             'round trip through the override parser), explicit enumeration of '
             'every directive sequence x split x read pattern against a '
             'sequential reference, and of call expressions over a literal '
             'alphabet')
RULE = ('(a) DAG shapes over {Config, Configs with positional-only/*args '
        'arguments (with and without **kwargs), list, dict whose keys '
        'range over an alphabet of awkward strings and ints} x every leaf of a '
        'literal alphabet (incl. strings spelled like other literals); each '
        'path is written back with a new value and with its own printed value: every path printed by as_dict_flattened / as_str_flattened; '
        '(b) every sequence up to a length over {config:, config: with '
        'arguments, config_str:, set: (two paths x two values), fiddler: '
        '(mutating, returning, with arguments)} x every split into parse() '
        'calls x reading .value after each call or only at the end; (c) every '
        'call expression with 0-2 positional and 0-2 keyword literals from an '
        'alphabet with commas, parentheses, quotes, nested containers')
ASSUMPTIONS = [
    'domain of (a): dict keys are quote-free, =-free strings or non-negative '
    'ints, leaves are Python literals, override targets not inside tuples; '
    'positional-only arguments are addressed by [i]',
    'a container holding no Buildable is printed as one leaf (the printers\' '
    'documented behaviour): completeness is judged up to that',
    'as_str_flattened lines of the form "path = <[unset...]>" are not leaves',
    'illegal directive sequences (no base first, two bases) must raise when '
    '.value is read',
]
LEVEL_TEXT = ('Every printed path of every bounded configuration is parsed '
              'back and used as an override; every bounded directive history '
              'is executed on a real FiddleFlag and compared with a '
              'sequential reference; nothing is sampled.')
LEVEL_NOTE = ('Trusted: the sequential reference (direct Python calls on '
              'vfx.flagmod), mc.canon. Bounds: shapes N<=3, sequences <=4 '
              '; the thorough tier adds path shapes with N=3 over a reduced menu.')

KEYS = ['a', 'a b', 'k]', '[', '.', 'é', '0', '-1', '', 0, 1, 10]


def bounds(tier):
  return dict(n=2 if tier == 'quick' else 3, seq=4)


def mk(cls, fn):
  def make(vals):
    kw = {n: v for n, v in zip(('x', 'y'), vals) if v is not shapes.UNSET}
    return cls(fn, **kw)
  return make


def mk_pos(vals, fn=None):
  c = fdl.Config(fn or N.node_pos)
  p0, a, va0 = vals
  if p0 is not shapes.UNSET:
    c[0] = p0
  if a is not shapes.UNSET:
    c.a = a
  if va0 is not shapes.UNSET:
    c[fdl.VARARGS:] = [va0]
  return c


def kinds():
  K = shapes.Kind
  out = {
      'cfg': K('cfg', 2, True, mk(fdl.Config, N.node), True),
      'par': K('par', 2, True, mk(fdl.Partial, N.node_b), True),
      'pos': K('pos', 3, True, mk_pos, True),
      'pos2': K('pos2', 3, True, lambda v: mk_pos(v, N.node_pos2), True),
      'list2': K('list2', 2, False, list),
      'tuple1': K('tuple1', 1, False, tuple),
  }
  for i, (k1, k2) in enumerate(itertools.combinations(KEYS, 2)):
    out[f'dict{i}'] = K(f'dict{i}', 2, False,
                        lambda v, k1=k1, k2=k2: {k1: v[0], k2: v[1]})
  return out


LEAVES = [7, 'str leaf', None]
# every shape is run once per leaf value (strings that look like other
# literals included)
LEAF_VALUES = [7, 'str leaf', None, 'False', 'true', 'TRUE', '7', 'None',
               " 'q' ", True, 1.5, (1, 'a'), '', 'a=b', ['--alpha=1', '=']]
NCHUNK = 32


def units(tier, seed):
  return ([('paths', k) for k in range(NCHUNK)] +
          [('flags', k) for k in range(16)] + [('callexpr',), ('legacy',)])


_KK = None


def path_cases(b):
  global _KK
  if _KK is None:
    _KK = kinds()
  dict_kinds = [k for k in _KK if k.startswith('dict')]
  seen = set()
  # every dict kind once in a small menu (keeps the product bounded)
  # a dict is only descended into when it holds a Buildable: three nodes
  for dk in dict_kinds:
    menu = ['cfg', dk]
    for s in shapes.enumerate_shapes([_KK[m] for m in menu], 3, 1,
                                     root_kinds=['cfg']):
      if any(k == dk for k, _ in s) and s not in seen:
        seen.add(s)
        yield s
  for s in shapes.all_shapes(
      [_KK[m] for m in ['cfg', 'par', 'pos', 'pos2', 'list2', 'tuple1',
                         'dict0']],
      2, 1, root_kinds=['cfg', 'pos', 'pos2', 'par']):
    if s not in seen:
      seen.add(s)
      yield s
  if b['n'] >= 3:
    # three nodes over a reduced menu
    for s in shapes.all_shapes(
        [_KK[m] for m in ['cfg', 'pos2', 'list2', 'dict0']], 3, 1,
        root_kinds=['cfg', 'pos2']):
      if s not in seen:
        seen.add(s)
        yield s


def contains_buildable(v):
  if isinstance(v, fdl.Buildable):
    return True
  if isinstance(v, (list, tuple)):
    return any(contains_buildable(a) for a in v)
  if isinstance(v, dict):
    return any(contains_buildable(a) for a in v.values())
  return False


def expected_leaves(root):
  """[(path spec, value, inside_tuple)] for every printed leaf: values that
  hold no Buildable, reached through Buildables / containers that do."""
  out = []

  def walk(v, path, in_tuple):
    ch = canon.children(v)
    if ch is None or not contains_buildable(v):
      out.append((path, v, in_tuple))
      return
    for pe, c in ch:
      walk(c, path + (pe,), in_tuple or isinstance(v, tuple))

  for pe, c in canon.children(root):
    walk(c, (pe,), False)
  return out


def follow_spec(root, path):
  v = root
  for kind, k in path:
    if kind == 'attr':
      v = v.__arguments__[k] if isinstance(v, fdl.Buildable) else getattr(
          v, k)
    elif isinstance(v, fdl.Buildable):
      v = v.__arguments__[k]
    else:
      v = v[k]
  return v


def spec_of(parsed, root):
  """Converts a parsed daglish path into my path spec by following it."""
  out = []
  v = root
  for e in parsed:
    if type(e).__name__ == 'Attr':
      out.append(('attr', e.name))
      v = v.__arguments__[e.name]
    else:
      k = e.key
      if isinstance(v, fdl.Buildable):
        out.append(('index', k))
        v = v.__arguments__[k]
      elif isinstance(v, dict):
        out.append(('key', k))
        v = v[k]
      else:
        out.append(('index', k))
        v = v[k]
  return tuple(out), v


def check_paths(shape, res, only_leaf=None):
  for li, leaf in enumerate(LEAF_VALUES):
    if only_leaf is None or only_leaf == li:
      _check_paths(shape, res, li)


def _check_paths(shape, res, li):
  LEAVES = [LEAF_VALUES[li]]
  objs = shapes.materialize(shape, _KK, LEAVES)
  root = objs[-1]
  case = {'shape': shape, 'leaf': li}

  def bad(key, msg):
    res.violation(f'C18/{key}', f'{case}: config {root!r}: {msg}', case)

  exp = expected_leaves(root)
  try:
    flat = printing.as_dict_flattened(root)
    text = printing.as_str_flattened(root, include_types=False)
  except Exception as e:  # pylint: disable=broad-except
    return bad('printer-raises', f'{type(e).__name__}: {e}')
  res.transitions += 2
  lines = [ln for ln in text.split('\n') if ln and '<[unset' not in ln]
  str_paths = [ln.split(' = ', 1)[0] for ln in lines]
  if sorted(str_paths) != sorted(flat):
    return bad('printers-disagree', f'{sorted(str_paths)} vs {sorted(flat)}')
  if len(set(flat)) != len(flat):
    return bad('duplicate-paths', f'{list(flat)}')
  got_specs = {}
  for p, value in flat.items():
    try:
      parsed = utils.parse_path(p)
    except Exception as e:  # pylint: disable=broad-except
      return bad(f'printed-path-does-not-parse/{_keyclass(p)}',
                 f'path {p!r}: {type(e).__name__}: {e}')
    try:
      spec, at = spec_of(parsed, root)
    except Exception as e:  # pylint: disable=broad-except
      return bad('printed-path-does-not-resolve', f'path {p!r}: {e!r}')
    if at is not value and at != value:
      return bad('printed-path-resolves-to-other-value',
                 f'path {p!r} -> {at!r}, printed {value!r}')
    got_specs[spec] = p
  exp_specs = {path for path, _, _ in exp}
  if set(got_specs) != exp_specs:
    return bad('leaves-missing-or-extra',
               f'missing {sorted(exp_specs - set(got_specs), key=repr)[:3]} '
               f'extra {sorted(set(got_specs) - exp_specs, key=repr)[:3]}')
  # write every path back
  for path, value, in_tuple in exp:
    if in_tuple:
      res.counters['override_target_inside_tuple_skipped'] += 1
      continue
    p = got_specs[path]
    new = ('NEW', 1)
    target = shapes.materialize(shape, _KK, LEAVES)[-1]
    twin = shapes.materialize(shape, _KK, LEAVES)[-1]
    res.transitions += 1
    try:
      utils.set_value(target, f'{p}={new!r}')
    except Exception as e:  # pylint: disable=broad-except
      bad(f'set_value-raises/{_keyclass(p)}', f'{p!r}: {e!r}')
      continue
    # model: replace exactly that slot
    parent = follow_spec(twin, path[:-1]) if len(path) > 1 else twin
    kind, k = path[-1]
    if isinstance(parent, fdl.Buildable):
      if kind == 'index':
        parent[k] = new
      else:
        setattr(parent, k, new)
    else:
      parent[k] = new
    if canon.canon_cfg(target) != canon.canon_cfg(twin):
      bad(f'override-changed-something-else/{_keyclass(p)}',
          f'{p!r}: got {target!r} expected {twin!r}')
    # writing the printed value back as a Python literal changes nothing
    try:
      is_literal = ast.literal_eval(repr(value)) == value
    except Exception:  # pylint: disable=broad-except
      is_literal = False
    if is_literal:
      target = shapes.materialize(shape, _KK, LEAVES)[-1]
      twin = shapes.materialize(shape, _KK, LEAVES)[-1]
      res.transitions += 1
      try:
        utils.set_value(target, f'{p}={value!r}')
      except Exception as e:  # pylint: disable=broad-except
        bad(f'set_value-of-printed-value-raises/{_keyclass(p)}',
            f'{p}={value!r}: {e!r}')
        continue
      parent = follow_spec(twin, path[:-1]) if len(path) > 1 else twin
      kind, k = path[-1]
      fresh = ast.literal_eval(repr(value))   # what the text conveys
      if isinstance(parent, fdl.Buildable):
        if kind == 'index':
          parent[k] = fresh
        else:
          setattr(parent, k, fresh)
      else:
        parent[k] = fresh
      if canon.canon_cfg(target) != canon.canon_cfg(twin):
        bad(f'writing-printed-value-back-changes-it/{_keyclass(p)}',
            f'{p}={value!r}: got {target!r} expected {twin!r}')
  res.outcomes[f'paths:{min(len(exp), 6)}'] += 1
  # history: print, mutate a container in place so that it now holds a
  # Buildable, print again
  objs = shapes.materialize(shape, _KK, LEAVES)
  root = objs[-1]
  printing.as_dict_flattened(root)
  mutated = False
  for o in objs[:-1]:
    if type(o) is list and not contains_buildable(o):
      o.append(fdl.Config(N.node_b, x='added'))
      mutated = True
    elif type(o) is dict and not contains_buildable(o):
      o['added'] = fdl.Config(N.node_b, x='added')
      mutated = True
  if mutated:
    res.transitions += 1
    exp2 = {p for p, _, _ in expected_leaves(root)}
    try:
      flat2 = printing.as_dict_flattened(root)
      got2 = set()
      for p in flat2:
        got2.add(spec_of(utils.parse_path(p), root)[0])
    except Exception as e:  # pylint: disable=broad-except
      return bad('second-print-after-mutation-raises', repr(e))
    if got2 != exp2:
      return bad('second-print-after-in-place-mutation',
                 f'after adding a Buildable to a container: printed '
                 f'{sorted(flat2)} expected leaves {sorted(exp2, key=repr)}')


def _keyclass(p):
  if "['']" in p:
    return 'empty-string-key'
  if '[' in p and "'" in p:
    return 'string-key'
  if '[' in p:
    return 'index'
  return 'attr'


# ------------------------------------------------------------ flags
def serialized_base():
  cfg = flagmod.base2(5, 'ser')
  return fdl_flags.FiddleFlagSerializer().serialize(cfg)


DIRECTIVES = None


def directives():
  global DIRECTIVES
  if DIRECTIVES is None:
    DIRECTIVES = [
        'config:base', 'config:base2(n=2)', serialized_base(),
        'set:x=1', 'set:x=2', 'set:y.x=5', "set:y.x='s'",
        'fiddler:f1', 'fiddler:f2(k=3)', 'fiddler:f3(items=[1, (2,)])',
        'config:base3(items=[1, 2])', 'set:y.y[0]=9',
    ]
  return DIRECTIVES


class RefError(Exception):
  pass


def reference(seq):
  """Sequential reference: returns the config or raises RefError."""
  cfg = None
  for d in seq:
    cmd, expr = d.split(':', 1)
    if cmd in ('config', 'config_str'):
      if cfg is not None:
        raise RefError('two base configs')
      if cmd == 'config_str':
        cfg = flagmod.base2(5, 'ser')
      elif expr == 'base':
        cfg = flagmod.base()
      elif expr.startswith('base3'):
        cfg = flagmod.base3(items=[1, 2])
      else:
        cfg = flagmod.base2(n=2)
      continue
    if cfg is None:
      raise RefError('no base config first')
    if cmd == 'set':
      path, val = expr.split('=')
      val = eval(val)  # pylint: disable=eval-used
      try:
        if path == 'x':
          cfg.x = val
        elif path == 'y.y[0]':
          cfg.y.y[0] = val
        else:
          cfg.y.x = val
      except Exception as e:  # pylint: disable=broad-except
        raise RefError(f'set raised {e!r}') from e
    else:
      try:
        if expr == 'f1':
          flagmod.f1(cfg)
        elif expr.startswith('f2'):
          cfg = flagmod.f2(cfg, k=3)
        else:
          flagmod.f3(cfg, items=[1, (2,)])
      except Exception as e:  # pylint: disable=broad-except
        raise RefError(f'fiddler raised {e!r}') from e
  if cfg is None:
    raise RefError('empty')
  return cfg


def new_flag():
  return fdl_flags.FiddleFlag(
      name='cfg', default_module=flagmod, default=None,
      parser=absl_flags.ArgumentParser(), serializer=None,
      help_string='c18')


def splits(n):
  """All ways to cut a sequence of length n into consecutive parse() calls."""
  for cuts in itertools.product((False, True), repeat=max(n - 1, 0)):
    parts = []
    start = 0
    for i, c in enumerate(cuts):
      if c:
        parts.append((start, i + 1))
        start = i + 1
    parts.append((start, n))
    yield parts


def run_flags(k, b, res):
  D = directives()
  idx = -1
  for n in range(1, b['seq'] + 1):
    for seq_i in itertools.product(range(len(D)), repeat=n):
      idx += 1
      if idx % 16 != k:
        continue
      # prune: sequences whose first directive is not a base are all alike;
      # keep only the length-1/2 representatives of those
      if n > 2 and not D[seq_i[0]].startswith('config'):
        continue
      seq = [D[i] for i in seq_i]
      try:
        ref = ('ok', canon.canon_cfg(reference(seq)))
      except RefError as e:
        ref = ('raise', str(e))
      res.states += 1
      res.nontrivial += 1
      for parts in splits(n):
        for read_each in (False, True):
          if read_each and len(parts) == 1:
            continue
          case = {'directives': [d[:40] for d in seq], 'split': parts,
                  'read_after_each_parse': read_each}
          flag = new_flag()
          res.transitions += 1
          try:
            for (s, e) in parts:
              flag.parse(seq[s:e])
              if read_each:
                _ = flag.value
            v1 = flag.value
            v2 = flag.value       # reading twice applies nothing twice
            got = ('ok', canon.canon_cfg(v2))
            if v1 is not v2:
              res.violation('C18/value-not-stable', f'{case}', case)
          except Exception as e:  # pylint: disable=broad-except
            got = ('raise', f'{type(e).__name__}: {e}')
          res.outcomes[f'flag:{got[0]}'] += 1
          if read_each and ref[0] == 'raise':
            # an early read may legitimately raise earlier; only the final
            # outcome class is compared
            pass
          if got[0] != ref[0]:
            res.violation(
                f'C18/flag-outcome/{ref[0]}-expected',
                f'{case}: reference {ref[0]} ({ref[1] if ref[0] == "raise" else ""}), '
                f'flag {got}', case)
          elif got[0] == 'ok' and got[1] != ref[1]:
            res.violation(
                f'C18/flag-directives-not-applied-in-order/'
                f'{"split" if len(parts) > 1 else "single-parse"}',
                f'{case}: flag value {flag.value!r} reference '
                f'{reference(seq)!r}', case)
  res.sample({'directive_alphabet': [d[:30] for d in D]})


def run_serializer(res):
  """A configuration serialized into a flag value parses back equal."""
  global _KK
  if _KK is None:
    _KK = kinds()
  for shape in shapes.all_shapes(
      [_KK[m] for m in ['cfg', 'par', 'list2', 'dict0']], 2, 2,
      root_kinds=['cfg', 'par']):
    cfg = shapes.materialize(shape, _KK, LEAVES)[-1]
    res.states += 1
    res.transitions += 1
    case = {'serialized_shape': shape}
    try:
      s = fdl_flags.FiddleFlagSerializer().serialize(cfg)
      flag = new_flag()
      flag.parse([s])
      back = flag.value
    except Exception as e:  # pylint: disable=broad-except
      res.violation('C18/flag-serializer-raises', f'{case}: {e!r}', case)
      continue
    if not (back == cfg) or canon.canon_cfg(back) != canon.canon_cfg(cfg):
      res.violation('C18/flag-serializer-roundtrip', f'{case}: {back!r}', case)


# ------------------------------------------------------------ call expressions
LITERALS = [1, -1.5, 'a', 'a,b', '(x)', "q'uote", [1, 2], {'k': (1,)}, None,
            True, (), 'x=1', ')', '']


def run_callexpr(res):
  for fname in ('f', 'mod.sub.f'):
    res.transitions += 1
    ce = utils.CallExpression.parse(fname)
    if (ce.func_name, tuple(ce.args), dict(ce.kwargs)) != (fname, (), {}):
      res.violation('C18/call-expression/bare-name', f'{fname}: {ce}',
                    {'expr': fname})
    for npos in range(3):
      for nkw in range(3):
        for pos in itertools.product(LITERALS, repeat=npos):
          for kw in itertools.product(LITERALS[:8], repeat=nkw):
            args = [repr(v) for v in pos] + [
                f'k{i}={v!r}' for i, v in enumerate(kw)]
            text = f'{fname}({", ".join(args)})'
            res.states += 1
            res.transitions += 1
            res.nontrivial += 1
            try:
              ce = utils.CallExpression.parse(text)
              got = (ce.func_name, tuple(ce.args), dict(ce.kwargs))
            except Exception as e:  # pylint: disable=broad-except
              got = ('raise', type(e).__name__, str(e)[:80])
            exp = (fname, tuple(pos), {f'k{i}': v for i, v in enumerate(kw)})
            if got != exp or [type(a) for a in got[1]] != [
                type(a) for a in exp[1]]:
              res.violation('C18/call-expression', f'{text!r}: parsed {got} '
                            f'expected {exp}', {'expr': text})
  res.sample({'call_expression': "f('a,b', k0=[1, 2])"})


# ------------------------------------------------------------ legacy flag API
LEGACY_OVERRIDES = [
    ('layers=[1, 2]', lambda r: setattr(r, 'layers', [1, 2])),
    ('layers[0]=5', lambda r: r.layers.__setitem__(0, 5)),
    ('layers=[7, 8]', lambda r: setattr(r, 'layers', [7, 8])),
    ('enc.x=1', lambda r: setattr(r.enc, 'x', 1)),
    ('dec.x=2', lambda r: setattr(r.dec, 'x', 2)),
    ('enc.x=3', lambda r: setattr(r.enc, 'x', 3)),
    ('enc.y=[0]', lambda r: setattr(r.enc, 'y', [0])),
    ('dec.y[0]=9', lambda r: r.dec.y.__setitem__(0, 9)),
]
LEGACY_TAG_VALUES = ['[16, 32]', "{'k': [1]}", '5', "'s'"]
LEGACY_AFTER_TAG = [
    ('x[0]=7', lambda c: c.x.__setitem__(0, 7)),
    ("x['k']=8", lambda c: c.x.__setitem__('k', 8)),
    ('y=0', lambda c: setattr(c, 'y', 0)),
    ('inner.x[1]=6', lambda c: c.inner.x.__setitem__(1, 6)),
]


def run_legacy(res, max_len):
  """--fdl.path=value overrides are applied strictly in command-line order
  (also when a path is repeated); --fdl_tag.T=value gives every tagged
  parameter its own value, so a later element override sets exactly one
  leaf."""
  from fiddle._src.absl_flags import legacy_flags  # pylint: disable=g-import-not-at-top
  FLAGS = absl_flags.FLAGS

  def parse(argv):
    FLAGS.unparse_flags()
    FLAGS(['prog'] + legacy_flags.rewrite_fdl_args(argv))

  def base():
    s_ = fdl.Config(N.node_b, x=0, y=[4])
    return fdl.Config(N.node_kw, enc=s_, dec=s_, layers=[1, 2])

  try:
    for n in range(1, max_len + 1):
      for seq in itertools.product(range(len(LEGACY_OVERRIDES)), repeat=n):
        texts = [LEGACY_OVERRIDES[i][0] for i in seq]
        case = {'legacy_overrides': texts}
        ref = base()
        ref_out = 'ok'
        for i in seq:
          try:
            LEGACY_OVERRIDES[i][1](ref)
          except Exception:  # pylint: disable=broad-except
            ref_out = 'raise'
            break
        real = base()
        parse([f'--fdl.{t}' for t in texts])
        res.states += 1
        res.transitions += 1
        res.nontrivial += 1
        try:
          legacy_flags.apply_overrides_to(real)
          out = 'ok'
        except Exception:  # pylint: disable=broad-except
          out = 'raise'
        res.outcomes[f'legacy:{out}'] += 1
        if out != ref_out:
          res.violation('C18/legacy-overrides/outcome',
                        f'{case}: {out} expected {ref_out}', case)
        elif out == 'ok' and canon.canon_cfg(real) != canon.canon_cfg(ref):
          res.violation('C18/legacy-overrides/not-applied-in-order',
                        f'{case}: got {real!r} expected {ref!r}', case)
    # tags, then element overrides
    def tagged():
      inner = fdl.Config(N.node_b, x=1)
      c = fdl.Config(N.node, x=1, y=2)
      c = fdl.Config(N.node_kw, x=1, y=2, inner=inner)
      fdl.add_tag(c, 'x', N.TagC)
      fdl.add_tag(c, 'y', N.TagC)
      fdl.add_tag(inner, 'x', N.TagC)
      fdl.add_tag(inner, 'y', N.TagA)
      return c
    for tv in LEGACY_TAG_VALUES:
      for k in range(0, 3):
        for seq in itertools.product(range(len(LEGACY_AFTER_TAG)), repeat=k):
          texts = [LEGACY_AFTER_TAG[i][0] for i in seq]
          case = {'legacy_tag_value': tv, 'then': texts}
          ref = tagged()
          for node, name in ((ref, 'x'), (ref, 'y'), (ref.inner, 'x')):
            setattr(node, name, ast.literal_eval(tv))
          ref_out = 'ok'
          for i in seq:
            try:
              LEGACY_AFTER_TAG[i][1](ref)
            except Exception:  # pylint: disable=broad-except
              ref_out = 'raise'
              break
          real = tagged()
          parse([f'--fdl_tag.{N.TagC.name}={tv}'] +
                [f'--fdl.{t}' for t in texts])
          res.states += 1
          res.transitions += 1
          res.nontrivial += 1
          try:
            legacy_flags.set_tags(real)
            legacy_flags.apply_overrides_to(real)
            out = 'ok'
          except Exception:  # pylint: disable=broad-except
            out = 'raise'
          res.outcomes[f'legacy-tags:{out}'] += 1
          if out != ref_out:
            res.violation('C18/legacy-tags/outcome',
                          f'{case}: {out} expected {ref_out}', case)
          elif out == 'ok' and canon.canon_cfg(real) != canon.canon_cfg(ref):
            res.violation('C18/legacy-tags/override-changed-something-else',
                          f'{case}: got {real!r} expected {ref!r}', case)
    # the whole legacy entry point: fiddlers, then tags, then overrides
    # (documented order), whatever the order on the command line
    pieces = {'fiddler': ['--fiddler=set_x_to_fiddled'],
              'tag': [f'--fdl_tag.{N.TagC.name}=0.5'],
              'override': ['--fdl.x=0.3']}
    for r in range(1, 4):
      for combo in itertools.permutations(pieces, r):
        argv = ['--fdl_config=tagged_base'] + [
            a for name in combo for a in pieces[name]]
        case = {'legacy_entry_point': list(combo)}
        ref = flagmod.tagged_base()
        if 'fiddler' in combo:
          flagmod.set_x_to_fiddled(ref)
        if 'tag' in combo:
          ref.x = 0.5
          ref.y = 0.5
        if 'override' in combo:
          ref.x = 0.3
        parse(argv)
        res.states += 1
        res.transitions += 1
        res.nontrivial += 1
        try:
          real = legacy_flags.create_buildable_from_flags(flagmod)
        except Exception as e:  # pylint: disable=broad-except
          res.violation('C18/legacy-entry-point/raises', f'{case}: {e!r}',
                        case)
          continue
        res.outcomes['legacy-entry:ok'] += 1
        if canon.canon_cfg(real) != canon.canon_cfg(ref):
          res.violation('C18/legacy-entry-point/order-of-application',
                        f'{case}: got {real!r} expected {ref!r}', case)
  finally:
    FLAGS.unparse_flags()
    FLAGS(['prog'])


def run_unit(unit, tier, seed):
  b = bounds(tier)
  res = core.Result()
  if unit[0] == 'legacy':
    run_legacy(res, 3 if tier == 'quick' else 4)
    res.sample({'legacy_override_alphabet': [t for t, _ in LEGACY_OVERRIDES]})
    return res
  if unit[0] == 'paths':
    for idx, shape in enumerate(path_cases(b)):
      if idx % NCHUNK != unit[1]:
        continue
      res.states += 1
      res.evals += 1
      if len(shape) > 1:
        res.nontrivial += 1
      check_paths(shape, res)
      if idx % 1999 == 0:
        res.sample({'shape': shape})
  elif unit[0] == 'flags':
    run_flags(unit[1], b, res)
    if unit[1] == 0:
      run_serializer(res)
  else:
    run_callexpr(res)
  return res


def _shape(x):
  return tuple((k, tuple(tuple(s) if isinstance(s, list) else s for s in sl))
               for k, sl in x)


def replay(case):
  global _KK
  res = core.Result()
  if _KK is None:
    _KK = kinds()
  if ('legacy_overrides' in case or 'legacy_tag_value' in case or
      'legacy_entry_point' in case):
    run_legacy(res, 3)
    res.violations = [v for v in res.violations if v['case'] == case]
  elif 'shape' in case:
    check_paths(_shape(case['shape']), res, case.get('leaf'))
  elif 'directives' in case:
    print('replay the directive sequence by running the flags unit; case:',
          case)
    for k in range(16):
      run_flags(k, bounds('quick'), res)
  elif 'expr' in case:
    print(case['expr'], '->', utils.CallExpression.parse(case['expr']))
    run_callexpr(res)
  else:
    run_serializer(res)
  for v in res.violations[:3]:
    print(v['what'][:1500])
  return res
