"""C19: threads working on different configurations do not interfere."""
from __future__ import annotations

import copy
import itertools

import fiddle as fdl
from fiddle import history
from fiddle.experimental import serialization
from mc import canon
from mc import core
from mc import sched
import vfx
from vfx import nodes as N

PROP = 'C19'
LEVEL = 'model_checking'
TECHNIQUE = ('stateless model checking of the real code: deterministic '
             'thread scheduler (sys.settrace line events inside fiddle/_src as '
             'scheduling points, semaphore baton) with iterative context '
             'bounding; per-thread observations compared with sequential runs')
RULE = ('every unordered pair (and listed triples) of thread programs {build '
        'with a slow callable, edits inside/outside suspend_tracking, nested '
        'suspend blocks, deepcopy, dump_json, first use of a fresh callable '
        'shared by the threads, failing build with a fresh exception class, '
        '==, nested-build attempt, switching tracking off without restoring '
        'it, dump_json with function / class leaves as argument values} under '
        'every schedule with at most k '
        'preemptions at any Fiddle source line (plus every start / '
        'continuation order); plus every sequence of <= 3 programs run in '
        'threads that live one after the other (identifier / thread-local '
        'recycling, unhashable callable objects at recycled addresses); a '
        'schedule is an execution; states = distinct '
        'observation vectors')
ASSUMPTIONS = [
    'reduction: a thread is preempted only at the first K dynamic occurrences '
    'of each source line it executes (K=1 quick, K=2 thorough); all start / '
    'continuation orders are still explored',
    'scheduling points are line events of code under fiddle/_src plus explicit '
    'points inside harness callables; interleavings inside one source line '
    'are not explored (the statement asks for source-line granularity)',
    'each thread works on its own configurations; callables and exception '
    'classes that are deliberately shared are created fresh per execution so '
    'that every cache starts cold',
    'sequence numbers are compared relatively (increasing within a thread, '
    'unique across threads), never by absolute value',
    'a violating schedule is replayed and must reproduce before it is '
    'reported; a divergence while replaying is a harness error',
]
LEVEL_TEXT = ('All schedules of each thread-program combination within the '
              'preemption bound are executed on the real code under a '
              'controlled scheduler; each thread must observe exactly what it '
              'observes alone.')
LEVEL_NOTE = ('Trusted: mc.sched (scheduler + enumeration), the observation '
              'functions. Bounds: pairs with <=1 preemption (quick), <=2 for '
              'the small flag-only programs; listed triples with <=1 (thorough).')


class Shared:
  """Objects deliberately shared by the threads of one execution."""

  def __init__(self):
    def fresh(x='fx', y='fy'):
      return ('fresh', x, y)
    self.fresh_fn = fresh

    class FreshError(Exception):
      pass
    self.exc = FreshError

    def failing(x=1):
      raise self.exc('boom')
    self.failing = failing


def seq_ids(cfg):
  return [e.sequence_id for lst in cfg.__argument_history__.values()
          for e in lst]


def hist_shape(cfg):
  return {str(k): [(e.kind.name, repr(e.new_value)) for e in v]
          for k, v in sorted(cfg.__argument_history__.items(),
                             key=lambda kv: str(kv[0])) if k != '__fn_or_cls__'}


def slow(x='sx', y='sy'):
  sched.point('slow-1')
  sched.point('slow-2')
  return ('slow', x, y)


def nested_attempt(x='nx'):
  sched.point('before-nested')
  try:
    fdl.build(fdl.Config(N.node, x='inner'))
    out = 'nested-build-accepted'
  except ValueError:
    out = 'nested-build-rejected'
  sched.point('after-nested')
  return out


def p_build_slow(sh, tag):
  cfg = fdl.Config(slow, x=tag, y=fdl.Config(N.node_b, x=tag))
  r = fdl.build(cfg)
  again = fdl.build(fdl.Config(N.node, x=tag))      # guard released?
  return dict(result=repr(r[:2]), y=r[2].bound['x'], again=again.bound['x'],
              ids=seq_ids(cfg))


def p_edits(sh, tag):
  cfg = fdl.Config(N.node)
  cfg.x = tag
  with history.suspend_tracking():
    cfg.y = 'suspended'
  cfg.x = tag + '2'
  return dict(hist=hist_shape(cfg), tracking=history.tracking_enabled(),
              args=repr(cfg.__arguments__), ids=seq_ids(cfg))


def p_nested_suspend(sh, tag):
  cfg = fdl.Config(N.node_b)
  with history.suspend_tracking():
    with history.suspend_tracking():
      cfg.x = 'inner'
    cfg.y = 'still-suspended'
  cfg.x = tag
  return dict(hist=hist_shape(cfg), tracking=history.tracking_enabled(),
              ids=seq_ids(cfg))


def p_deepcopy(sh, tag):
  s = fdl.Config(N.node_b, x=tag)
  cfg = fdl.Config(N.node, x=[s, s], y={'k': s})
  fdl.add_tag(cfg, 'x', N.TagA)
  c = copy.deepcopy(cfg)
  return dict(copy=repr(canon.canon_cfg(c)), same=(c == cfg),
              ids=seq_ids(cfg))


def p_dump_json(sh, tag):
  cfg = fdl.Config(N.node, x=fdl.Partial(N.Mid, x=tag),
                   y=[N.Color.RED, N.node_b, N.Base])
  text = serialization.dump_json(cfg)
  back = serialization.load_json(text)
  return dict(text=text, back=repr(canon.canon_cfg(back)), ids=seq_ids(cfg))


def p_dump_json_fn(sh, tag):
  """A function and a class as argument *values* (pyrefs that carry paths),
  at other paths than in p_dump_json."""
  cfg = fdl.Config(N.node_b, x=N.node_b, y={'k': [N.Base, tag]})
  text = serialization.dump_json(cfg)
  called = serialization.dump_json(fdl.Config(N.node_b, x=tag))
  return dict(text=text, called=called, ids=seq_ids(cfg))


@__import__('dataclasses').dataclass(eq=True)
class UnhashableA:
  tag: str = 'a'

  def __call__(self, x='xa', depth=7):
    return ('A', x, depth)


@__import__('dataclasses').dataclass(eq=True)
class UnhashableB:
  tag: str = 'b'

  def __call__(self, y='yb', depth=2, extra=None):
    return ('B', y, depth)


def p_unhashable_a(sh, tag):
  """Configures unhashable callable objects and lets them die."""
  seen = set()
  for i in range(60):
    cfg = fdl.Config(UnhashableA(str(i)))
    seen.add(cfg.depth)
    del cfg
  return dict(depths=sorted(seen), ids=[])


def p_unhashable_b(sh, tag):
  """Its own unhashable callable objects of another class (some of them at
  addresses that earlier objects occupied)."""
  seen = set()
  keep = []
  for i in range(600):
    try:
      cfg = fdl.Config(UnhashableB(str(i)), y=i)
      seen.add((cfg.depth, cfg.extra))
    except Exception as e:  # pylint: disable=broad-except
      seen.add(type(e).__name__)
    keep.append(cfg)
  return dict(depths=sorted(map(repr, seen)), ids=[])


def p_fresh_callable(sh, tag):
  cfg = fdl.Config(sh.fresh_fn, x=tag)
  cfg.y = tag + 'y'
  return dict(built=repr(fdl.build(cfg)), args=repr(cfg.__arguments__),
              view=repr(fdl.ordered_arguments(cfg, include_defaults=True)),
              ids=seq_ids(cfg))


def p_failing_build(sh, tag):
  cfg = fdl.Config(N.node, x=fdl.Config(sh.failing, x=tag))
  try:
    fdl.build(cfg)
    out = 'no-exception'
  except Exception as e:  # pylint: disable=broad-except
    import traceback  # pylint: disable=g-import-not-at-top
    out = (isinstance(e, sh.exc), str(e).startswith('boom'),
           '<root>.x' in str(e), type(e).__name__,
           type(e).__qualname__ == sh.exc.__qualname__,
           traceback.format_exception_only(type(e), e)[-1].split(':')[0])
  again = fdl.build(fdl.Config(N.node, x=tag))
  return dict(escaped=repr(out), again=again.bound['x'], ids=seq_ids(cfg))


def p_eq(sh, tag):
  a = fdl.Config(N.node, x=[tag], y=fdl.Config(N.node_b, x=tag))
  b = fdl.Config(N.node, x=[tag], y=fdl.Config(N.node_b))
  b.y.x = tag
  return dict(eq=(a == b), ne=(a != fdl.Config(N.node, x=[tag])),
              ids=seq_ids(a) + seq_ids(b))


def p_nested_build(sh, tag):
  cfg = fdl.Config(N.node, x=fdl.Config(nested_attempt))
  r = fdl.build(cfg)
  return dict(inner=r.bound['x'], ids=seq_ids(cfg))


class _PriorError(Exception):
  pass


def _prior_fail(z=0):
  raise _PriorError('prior')


def prior_history():
  """What the process did before the threads start: lookups and failures for
  *other* callables / exception classes, so that any "most recent" or
  wrongly keyed cache holds foreign data."""
  fdl.Config(N.only_x, x=1)
  try:
    fdl.build(fdl.Config(_prior_fail))
  except _PriorError:
    pass
  fdl.Config(N.node_pos, 1, 2, 3)


def p_suspend_single(sh, tag):
  """Only the tracking flag: no configuration work, few scheduling points."""
  seen = []
  with history.suspend_tracking():
    sched.point('inside-single-block')
    seen.append(history.tracking_enabled())
  seen.append(history.tracking_enabled())
  return dict(flags=seen, ids=[])


def p_suspend_nested(sh, tag):
  seen = []
  with history.suspend_tracking():
    with history.suspend_tracking():
      sched.point('inside-inner-block')
      seen.append(history.tracking_enabled())
    sched.point('inside-outer-block')
    seen.append(history.tracking_enabled())
  seen.append(history.tracking_enabled())
  return dict(flags=seen, ids=[])


def p_quiet(sh, tag):
  """Switches tracking off for this thread and ends without restoring it."""
  cfg = fdl.Config(N.node)
  history.set_tracking(enabled=False)
  sched.point('tracking-off')
  cfg.x = tag
  return dict(hist=hist_shape(cfg), tracking=history.tracking_enabled(),
              ids=seq_ids(cfg))


PROGRAMS = {
    'quiet': p_quiet,
    'suspend_single': p_suspend_single, 'suspend_nested': p_suspend_nested,
    'build_slow': p_build_slow, 'edits': p_edits,
    'nested_suspend': p_nested_suspend, 'deepcopy': p_deepcopy,
    'dump_json': p_dump_json, 'dump_json_fn': p_dump_json_fn,
    'unhashable_a': p_unhashable_a, 'unhashable_b': p_unhashable_b,
    'fresh_callable': p_fresh_callable,
    'failing_build': p_failing_build, 'eq': p_eq,
    'nested_build': p_nested_build,
}
SMALL = ['suspend_single', 'suspend_nested', 'quiet']
SEQUENTIAL_ONLY = ['unhashable_a', 'unhashable_b']
SHORT = ['build_slow', 'edits', 'nested_suspend', 'fresh_callable',
         'failing_build', 'nested_build']


def bounds(tier):
  if tier == 'quick':
    return dict(pair_bound=1, triples=[], deep_bound=None, occurrence_cap=1)
  return dict(pair_bound=1, deep_bound=None, occurrence_cap=2, triples=[
      ('edits', 'nested_suspend', 'fresh_callable'),
      ('failing_build', 'failing_build', 'build_slow'),
  ])


def units(tier, seed):
  b = bounds(tier)
  names = list(PROGRAMS)
  cap = b['occurrence_cap']
  names = [n for n in names if n not in SMALL and n not in SEQUENTIAL_ONLY
           and n != 'dump_json_fn']
  out = [('combo', list(c), b['pair_bound'], cap)
         for c in itertools.combinations_with_replacement(names, 2)]
  # the second serializing program only meets the serializing programs
  out += [('combo', ['dump_json', 'dump_json_fn'], b['pair_bound'], cap),
          ('combo', ['dump_json_fn', 'dump_json_fn'], b['pair_bound'], cap)]
  # small programs: two preemptions, every dynamic occurrence, also in quick
  out += [('combo', list(c), 2, None)
          for c in itertools.combinations_with_replacement(SMALL, 2)]
  if b['deep_bound']:
    out += [('combo', list(c), b['deep_bound'], 1)
            for c in itertools.combinations_with_replacement(SHORT, 2)]
  out += [('combo', list(t), 1, 1) for t in b['triples']]
  out += [('lifetimes', k) for k in range(4)]
  # long explorations first
  out.sort(key=lambda u: 0 if u[0] == 'lifetimes' else -(
      len(u[1]) * 10 + u[2] * 5 + sum(
          20 for n_ in u[1] if n_.startswith('dump_json'))))
  return out


_FRESH = {}


def solo(name):
  """The observation of a program running alone from a fresh state."""
  if name in ('dump_json', 'dump_json_fn', 'unhashable_b'):
    # process-wide caches could already hold another run's data: these
    # references come from a fresh interpreter
    if name not in _FRESH:
      import json  # pylint: disable=g-import-not-at-top
      import os  # pylint: disable=g-import-not-at-top
      import subprocess  # pylint: disable=g-import-not-at-top
      import sys  # pylint: disable=g-import-not-at-top
      code = ('import json, sys; from mc import c19; '
              f'print("@@" + json.dumps(c19._solo_here({name!r})))')
      out = subprocess.run([sys.executable, '-c', code], capture_output=True,
                           text=True, env=dict(os.environ), check=True).stdout
      _FRESH[name] = json.loads(out.split('@@')[-1])
    return dict(_FRESH[name])
  return _solo_here(name)


def _solo_here(name):
  import threading  # pylint: disable=g-import-not-at-top
  sh = Shared()
  vfx.reset()
  prior_history()
  box = {}
  t = threading.Thread(target=lambda: box.update(PROGRAMS[name](sh, 'T')))
  t.start()
  t.join(60)
  obs = dict(box)
  obs.pop('ids')
  return obs


def run_combo(names, bound, res, only_schedule=None, occurrence_cap=None):
  expected = [solo(n) for n in names]
  # solo observations must not depend on the tag position: tags are equal
  case_base = {'programs': names, 'preemption_bound': bound}
  observations = set()
  stats = {'n': 0}

  def make_bodies():
    sh = Shared()
    vfx.reset()
    prior_history()
    return [(lambda n=n: PROGRAMS[n](sh, 'T')) for n in names]

  def judge(ex):
    """Returns None or (key, message)."""
    all_ids = []
    for tid, r in enumerate(ex.results):
      if r[0] != 'ok':
        return (f'thread-raised/{names[tid]}',
                f'thread {tid} ({names[tid]}) raised {r[1:]}')
      obs = dict(r[1])
      ids = obs.pop('ids')
      if ids != sorted(ids) and False:
        pass
      all_ids.extend(ids)
      if obs != expected[tid]:
        diff = {k: (obs.get(k), expected[tid].get(k))
                for k in set(obs) | set(expected[tid])
                if obs.get(k) != expected[tid].get(k)}
        return (f'thread-observation-differs/{names[tid]}/'
                f'{"+".join(sorted(diff))}',
                f'thread {tid} ({names[tid]}) observed {diff} '
                f'(observed, alone)')
    if len(set(all_ids)) != len(all_ids):
      return ('sequence-ids-not-unique-across-threads', f'{sorted(all_ids)}')
    if not history.tracking_enabled():
      return ('main-thread-tracking-flag-changed', '')
    return None

  def on_execution(ex, sched_key):
    stats['n'] += 1
    res.transitions += 1
    obs_key = repr([(r[0], {k: v for k, v in r[1].items() if k != 'ids'}
                     if r[0] == 'ok' else r[1:]) for r in ex.results])
    observations.add(obs_key)
    verdict = judge(ex)
    if verdict is None:
      return
    order, switches = sched_key
    # replay twice: the same schedule must fail the same way
    again = [sched.Execution(make_bodies(), switches, order=order).run()
             for _ in range(2)]
    v2 = [judge(a) for a in again]
    if any(a.trace != ex.trace for a in again):
      raise sched.HarnessError(
          f'non-deterministic replay of schedule {order} {switches}')
    if any(v is None or v[0] != verdict[0] for v in v2):
      raise sched.HarnessError(f'verdict not reproducible: {verdict} {v2}')
    where = [ex.label(s) for s in sorted(switches) if s >= 0]
    res.violation(
        f'C19/{verdict[0]}',
        f'{case_base}: order {order} switches {switches} (preempted at '
        f'{where}): {verdict[1]}',
        dict(case_base, order=list(order),
             switches={str(k): v for k, v in switches.items()}))

  if only_schedule is not None:
    order, switches = only_schedule
    ex = sched.Execution(make_bodies(), switches, order=order).run()
    print('trace around the switches:',
          [(s, ex.label(s)) for s in sorted(switches) if s >= 0])
    print('results:', ex.results)
    print('expected alone:', expected)
    v = judge(ex)
    if v:
      res.violation(f'C19/{v[0]}', v[1], case_base)
    return
  r = sched.explore(make_bodies, bound, on_execution,
                    occurrence_cap=occurrence_cap)
  res.states += len(observations)
  res.nontrivial += stats['n']
  res.evals += stats['n']
  res.outcomes[f'{"+".join(names)}:bound{bound}:cap{occurrence_cap}'] += stats['n']
  res.counters['max_points_in_an_execution'] = max(
      res.counters.get('max_points_in_an_execution', 0), r['max_points'])
  res.sample({'programs': names, 'bound': bound, 'executions': stats['n'],
              'points': r['max_points'],
              'distinct_observation_vectors': len(observations)}, limit=3)


LIFE = ['quiet', 'edits', 'suspend_nested', 'nested_suspend', 'failing_build',
        'fresh_callable', 'build_slow', 'dump_json', 'dump_json_fn',
        'unhashable_a', 'unhashable_b']


def run_lifetimes(k, res, only=None):
  """Threads that live one after the other (each is started after the
  previous one has ended, so the interpreter may recycle thread identifiers
  and thread-local storage): every sequence of up to three programs; each
  thread observes what it observes alone."""
  import threading  # pylint: disable=g-import-not-at-top
  expected = {n: solo(n) for n in LIFE}
  seqs = list(itertools.product(LIFE, repeat=2)) + list(
      itertools.product(LIFE[:7], repeat=3))
  for idx, seq in enumerate(seqs):
    if only is not None:
      if list(seq) != only:
        continue
    elif idx % 4 != k:
      continue
    sh = Shared()
    vfx.reset()
    prior_history()
    res.states += 1
    res.evals += 1
    res.nontrivial += 1
    idents = []
    for pos, name in enumerate(seq):
      box = {}
      def body(name=name, box=box):
        try:
          box['obs'] = PROGRAMS[name](sh, 'T')
        except BaseException as e:  # pylint: disable=broad-except
          box['err'] = repr(e)
        box['ident'] = threading.get_ident()
      t = threading.Thread(target=body)
      t.start()
      t.join(60)
      res.transitions += 1
      idents.append(box.get('ident'))
      case = {'lifetimes': list(seq), 'position': pos}
      if 'err' in box or 'obs' not in box:
        res.violation(f'C19/sequential-thread-raised/{name}',
                      f'{case}: {box.get("err")}', case)
        break
      obs = dict(box['obs'])
      obs.pop('ids')
      if obs != expected[name]:
        diff = {kk: (obs.get(kk), expected[name].get(kk)) for kk in obs
                if obs.get(kk) != expected[name].get(kk)}
        res.violation(
            f'C19/thread-started-after-another-ended-observes-its-state/'
            f'{name}/{"+".join(sorted(diff))}',
            f'{case}: thread {pos} ({name}) observed {diff} (observed, alone)',
            case)
        break
      if not history.tracking_enabled():
        res.violation('C19/main-thread-tracking-flag-changed', f'{case}', case)
        history.set_tracking(enabled=True)
        break
    if len(set(idents)) < len(idents):
      res.counters['lifetime_sequences_with_recycled_thread_ident'] += 1
    res.outcomes['lifetimes:' + str(len(seq))] += 1


def run_unit(unit, tier, seed):
  res = core.Result()
  if unit[0] == 'lifetimes':
    history.set_tracking(enabled=True)
    run_lifetimes(unit[1], res)
    return res
  _, names, bound, cap = unit
  history.set_tracking(enabled=True)
  run_combo(names, bound, res, occurrence_cap=cap)
  return res


def replay(case):
  res = core.Result()
  if 'lifetimes' in case:
    run_lifetimes(0, res, only=case['lifetimes'])
    for v in res.violations:
      print(v['what'])
    return res
  switches = {int(k): v for k, v in case['switches'].items()}
  run_combo(case['programs'], case['preemption_bound'], res,
            only_schedule=(tuple(case['order']), switches))
  return res
