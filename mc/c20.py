"""C20: meaning-preserving transformations preserve what is built."""
from __future__ import annotations

import copy
import dataclasses
import itertools

import fiddle as fdl
from fiddle import tagging
from fiddle._src import config as config_lib
from fiddle._src import materialize
from fiddle.experimental import auto_config
from fiddle.experimental import dataclasses as fdl_dc
from fiddle.experimental import serialization
from fiddle.experimental import transform
from fiddle.experimental import visualize
from mc import canon
from mc import core
from mc import shapes
import vfx
from vfx import acfg
from vfx import nodes as N

PROP = 'C20'
LEVEL = 'model_checking'
TECHNIQUE = ('bounded-exhaustive enumeration of configurations x every listed '
             'transformation; build of the transformed configuration compared '
             'with build of the original by canonical form')
RULE = ('every DAG shape over {Config with string defaults, Config with a '
        'mutable shared default object, Config with positional-only default, '
        'dataclass Config with default_factory, Partial, a user-registered '
        'container type, TaggedValue (with / '
        'without value), list, tuple of literals, dict} up to N nodes, leaves '
        '{plain, equal to a default, equal to the mutable default}, with / '
        'without argument tags x {materialize_defaults, with_defaults_trimmed '
        '(both flags), unintern_tuples_of_literals, replace_unconfigured_'
        'partials_with_callables, clear_argument_history, materialize_tags '
        '(None / each tag subset / clear_field_tags)}; auto_config.inline on '
        'every subset of auto_config nodes of fixture programs (with and '
        'without arguments, the same helper called several times); convert_dataclasses_to_'
        'configs on every dataclass instance graph of a small grammar (incl. an '
        'init=False field between init fields); a configuration that cannot '
        'be built does not become buildable by being transformed')
ASSUMPTIONS = [
    'builds are compared structurally (values, types, sharing of mutable '
    'objects); a functools.partial is compared by (function, positional '
    'args, keyword args that differ from the function defaults)',
    'when the original itself cannot be built (e.g. an unset TaggedValue) '
    'nothing is required of the transformed build',
    'a transformation that raises on an enumerated input is a violation',
    'the <factory> sentinel of dataclass default_factory fields is not a '
    '"default value" in the sense of the explicit-set clause',
]
LEVEL_TEXT = ('Each transformation is applied to every bounded configuration '
              'and the real builds are compared; ==, idempotence, explicit-'
              'defaults and serializability clauses are checked alongside.')
LEVEL_NOTE = ('Trusted: mc.canon (with callable normalisation), vfx fixtures. '
              'Bounds: N<=2 full menu + N=3 reduced (quick), N<=3 (thorough).')


def mk(cls, fn):
  def make(vals):
    kw = {n: v for n, v in zip(('x', 'y'), vals) if v is not shapes.UNSET}
    return cls(fn, **kw)
  return make


def mk_dc(vals):
  kw = {n: v for n, v in zip(('a', 'b'), vals) if v is not shapes.UNSET}
  return fdl.Config(N.DC2, **kw)


def mk_pos(vals):
  c = fdl.Config(N.node_pos)
  p0, a, va0 = vals
  if p0 is not shapes.UNSET:
    c[0] = p0
  if a is not shapes.UNSET:
    c.a = a
  if va0 is not shapes.UNSET:
    c[fdl.VARARGS:] = [va0]
  return c


def _mk_dcsub(vals):
  # the base dataclass has been configured and materialized before
  materialize.materialize_defaults(fdl.Config(N.DCBase))
  return fdl.Config(N.DCSub, **{
      n: x for n, x in zip(('b', 'c'), vals) if x is not shapes.UNSET})


def _tv_reset(vals):
  # a TaggedValue that had a value which was then reset to NO_VALUE
  tv = N.TagA.new('had-a-value')
  tv.value = fdl.NO_VALUE
  return tv


def kinds():
  K = shapes.Kind
  return {
      'cfg': K('cfg', 2, True, mk(fdl.Config, N.node), True),
      'mut': K('mut', 2, True, mk(fdl.Config, N.md), True),
      'mut2': K('mut2', 2, True, mk(fdl.Config, N.md2), True),
      'pos': K('pos', 3, True, mk_pos, True),
      'dc': K('dc', 2, True, mk_dc, True),
      'par': K('par', 2, True, mk(fdl.Partial, N.node), True),
      'parkw': K('parkw', 2, True, lambda vals: fdl.Partial(N.node_kw, **{
          n: v for n, v in zip(('x', 'extra'), vals)
          if v is not shapes.UNSET}), True),
      'list2': K('list2', 2, False, list),
      'tuple2': K('tuple2', 2, False, tuple),
      'dict1': K('dict1', 1, False, lambda v: {'k': v[0]}),
      'tmp': K('tmp', 2, False, lambda v: N.Tmp(*v)),
      'tv': K('tv', 1, True, lambda v: (N.TagA.new() if v[0] is shapes.UNSET
                                        else N.TagA.new(v[0])), True),
      'tvnv': K('tvnv', 0, False, _tv_reset, True),
      'csent': K('csent', 2, True, mk(fdl.Config, N.sentinel_fn), True),
      'cnest': K('cnest', 1, True, lambda v: fdl.Config(
          N.nested_default_fn, x=N.NESTED_EQUAL, **(
              {} if v[0] is shapes.UNSET else {'y': v[0]})), True),
      'dcbase': K('dcbase', 2, True, lambda v: fdl.Config(N.DCBase, **{
          n: x for n, x in zip(('a', 'b'), v) if x is not shapes.UNSET}), True),
      'dcsub': K('dcsub', 2, True, _mk_dcsub, True),
  }


MUT_EQ = ['m']          # equal to N.MUT_DEFAULT, a different (shared) object
LEAVES = ['L1', 'dy', MUT_EQ, 'dp0', 'dx']
ROOTS = None
NCHUNK = 48
FULL = ['cfg', 'mut', 'pos', 'dc', 'par', 'list2', 'tuple2', 'tv']
SMALL = ['mut2', 'par', 'list2', 'tv']


def bounds(tier):
  if tier == 'quick':
    return dict(families=[
        [['cfg', 'mut', 'dc', 'par', 'list2', 'tuple2', 'tv'], 2, 3],
        [['parkw', 'cfg', 'list2'], 2, 2],
        [['pos'], 1, 4],
        [['pos', 'list2'], 2, 2],
        [['mut2', 'list2', 'tv'], 3, 1],
        [['tmp', 'cfg', 'list2'], 3, 1],
        [['cfg', 'list2', 'tvnv', 'tv'], 3, 1],
        [['csent', 'cnest', 'dcbase', 'dcsub', 'list2'], 2, 2],
    ], dc_depth=2)
  return dict(families=[
      [FULL + ['dict1', 'parkw'], 2, 3],
      [['pos', 'cfg', 'list2'], 2, 4],
      [['mut2', 'par', 'list2', 'tv'], 3, 2],
      [['cfg', 'mut', 'par', 'list2'], 3, 2],
      [['tmp', 'cfg', 'par', 'list2'], 3, 1],
      [['cfg', 'list2', 'tvnv', 'tv'], 3, 1],
      [['csent', 'cnest', 'dcbase', 'dcsub', 'list2', 'cfg'], 2, 2],
  ], dc_depth=2)


def units(tier, seed):
  return [('shapes', k) for k in range(NCHUNK)] + [('inline',), ('dataclasses',)]


def all_cases(b):
  kk = kinds()
  seen = set()
  for menu, n, nl in b['families']:
    for s in shapes.all_shapes([kk[m] for m in menu], n, nl):
      if s in seen:
        continue
      seen.add(s)
      for tagv in ('none', 'tags'):
        yield s, tagv


_KK = None


def make(shape, tagv):
  global _KK
  if _KK is None:
    _KK = kinds()
  objs = shapes.materialize(shape, _KK, LEAVES)
  if tagv == 'tags':
    for o in objs:
      if isinstance(o, fdl.Buildable) and not isinstance(
          o, config_lib.TaggedValueCls):
        names = _named(o)
        if names:
          fdl.add_tag(o, names[0], N.TagA)
          fdl.add_tag(o, names[-1], N.TagB)
  return objs[-1]


def _named(b):
  return [n for n, p in b.__signature_info__.signature.parameters.items()
          if p.kind in (p.POSITIONAL_OR_KEYWORD, p.KEYWORD_ONLY)]


def build_canon(cfg):
  vfx.reset()
  try:
    return ('ok', canon.canon_built(fdl.build(cfg), normalize_partials=True))
  except Exception as e:  # pylint: disable=broad-except
    return ('raise', type(e).__name__)


def _in_place(fn):
  def run(cfg):
    c = copy.deepcopy(cfg)
    fn(c)
    return c
  return run


TRANSFORMS = {
    'materialize_defaults': _in_place(materialize.materialize_defaults),
    'with_defaults_trimmed': visualize.with_defaults_trimmed,
    'with_defaults_trimmed(deep)': lambda c: visualize.with_defaults_trimmed(
        c, remove_deep_defaults=True),
    'unintern_tuples_of_literals': transform.unintern_tuples_of_literals,
    'replace_unconfigured_partials_with_callables':
        transform.replace_unconfigured_partials_with_callables,
    'clear_argument_history': serialization.clear_argument_history,
    'materialize_tags': tagging.materialize_tags,
    'materialize_tags({A})': lambda c: tagging.materialize_tags(
        c, tags={N.TagA}),
    'materialize_tags({B})': lambda c: tagging.materialize_tags(
        c, tags={N.TagB}),
    'materialize_tags({A,B})': lambda c: tagging.materialize_tags(
        c, tags={N.TagA, N.TagB}),
    'materialize_tags(clear)': lambda c: tagging.materialize_tags(
        c, clear_field_tags=True),
}
EQ_PRESERVING = {'materialize_defaults', 'with_defaults_trimmed',
                 'with_defaults_trimmed(deep)'}


def defaults_all_set(root):
  """Every parameter with a (real) default value is explicitly set."""
  seen = set()
  missing = []

  def walk(v):
    if isinstance(v, fdl.Buildable):
      if id(v) in seen:
        return
      seen.add(id(v))
      params = v.__signature_info__.signature.parameters
      if isinstance(v, config_lib.TaggedValueCls):
        params = {}       # `tags` is filled in by __build__, not configured
      for idx, (name, p) in enumerate(
          params.items()):
        if p.default is p.empty or p.kind in (p.VAR_POSITIONAL,
                                              p.VAR_KEYWORD):
          continue
        if 'HAS_DEFAULT_FACTORY' in type(p.default).__name__:
          continue
        key = idx if p.kind == p.POSITIONAL_ONLY else name
        if key not in v.__arguments__:
          missing.append((type(v).__name__, canon.callable_key(
              v.__fn_or_cls__), key))
      for a in v.__arguments__.values():
        walk(a)
    elif isinstance(v, (list, tuple)):
      for a in v:
        walk(a)
    elif isinstance(v, dict):
      for a in v.values():
        walk(a)

  walk(root)
  return missing


MUTDEF_SLOTS = {'mut': (0,), 'mut2': (0, 1)}


def trim_class(shape):
  """Classifies with_defaults_trimmed cases: is there an explicit value that
  equals a *mutable* default object and is referenced from exactly one place
  (so that trimming it is allowed, and makes the argument fall back to the
  shared default object)?"""
  occ = [(kind, i) for kind, slots in shape for i, s in enumerate(slots)
         if s == ('L', 2)]
  if len(occ) == 1 and occ[0][1] in MUTDEF_SLOTS.get(occ[0][0], ()):
    return '/unshared-equal-copy-of-mutable-default'
  return ''


def dumps(cfg):
  try:
    serialization.dump_json(cfg)
    return True
  except Exception:  # pylint: disable=broad-except
    return False


def check_case(shape, tagv, res, only=None):
  cfg = make(shape, tagv)
  base = build_canon(cfg)
  base_dumps = dumps(cfg)
  for name, fn in TRANSFORMS.items():
    if only and name != only:
      continue
    case = {'shape': shape, 'tags': tagv, 'transform': name}
    cfg = make(shape, tagv)
    try:
      out = fn(cfg)
    except Exception as e:  # pylint: disable=broad-except
      res.transitions += 1
      res.violation(f'C20/transformation-raises/{name}/{type(e).__name__}',
                    f'{case}: {type(e).__name__}: {e}', case)
      continue
    res.transitions += 1
    res.outcomes[f'{name}:{base[0]}'] += 1
    if base[0] != 'ok':
      res.counters['original_not_buildable'] += 1
      # a configuration that cannot be built (e.g. a tagged value that was
      # never filled in) does not become buildable by being transformed
      got = build_canon(out)
      if got[0] == 'ok':
        res.violation(f'C20/unbuildable-original-builds-after/{name}',
                      f'{case}: original raises {base[1]}, transformed '
                      f'{out!r} builds {got[1]}', case)
      continue
    sub = trim_class(shape) if name.startswith('with_defaults_trimmed') else ''
    got = build_canon(out)
    if got != base:
      res.violation(f'C20/build-differs/{name}{sub}',
                    f'{case}: original builds {base}\n transformed {out!r} '
                    f'builds {got}', case)
    if name in EQ_PRESERVING:
      try:
        eq = (out == cfg) and (cfg == out)
      except Exception as e:  # pylint: disable=broad-except
        eq = f'raised {e!r}'
      if eq is not True:
        res.violation(f'C20/not-equal-to-original/{name}{sub}',
                      f'{case}: {out!r} == {cfg!r} -> {eq}', case)
    if base_dumps and not dumps(out):
      res.violation(f'C20/became-unserializable/{name}',
                    f'{case}: {out!r}', case)
    if name == 'materialize_defaults':
      missing = defaults_all_set(out)
      if missing:
        res.violation('C20/materialize_defaults-leaves-defaults-unset',
                      f'{case}: {missing[:3]}', case)
        continue
      once = canon.canon_cfg(out)
      try:
        materialize.materialize_defaults(out)
      except Exception as e:  # pylint: disable=broad-except
        res.violation('C20/materialize_defaults-second-run-raises',
                      f'{case}: {e!r}', case)
        continue
      if canon.canon_cfg(out) != once:
        res.violation('C20/materialize_defaults-not-idempotent', f'{case}',
                      case)


# ------------------------------------------------------------ inline
def inline_cases():
  for a in ('v', ['lst'], 1):
    for b in ('ob', 'v'):
      yield acfg.outer, (a, b)
  yield acfg.outer2, ()


def auto_config_nodes(root):
  out = []
  seen = set()

  def walk(v, path):
    if isinstance(v, fdl.Buildable):
      if id(v) in seen:
        return
      seen.add(id(v))
      if auto_config.is_auto_config(v.__fn_or_cls__):
        out.append(path)
      for k, a in list(v.__arguments__.items()):
        walk(a, path + (('arg', k),))
    elif isinstance(v, (list, tuple)):
      for i, a in enumerate(v):
        walk(a, path + (('idx', i),))
    elif isinstance(v, dict):
      for k, a in v.items():
        walk(a, path + (('key', k),))

  walk(root, ())
  return out


def follow(root, path):
  v = root
  for kind, k in path:
    v = v.__arguments__[k] if kind == 'arg' else v[k]
  return v


def run_inline(res):
  for prog, args in inline_cases():
    cfg = prog.as_buildable(*args)
    base = build_canon(cfg)
    paths = auto_config_nodes(cfg)
    # every non-empty subset of auto_config nodes, inlined in path order
    for r in range(1, len(paths) + 1):
      for subset in itertools.combinations(paths, r):
        c = prog.as_buildable(*args)
        case = {'inline': [list(map(list, p)) for p in subset],
                'program': prog.__name__, 'args': list(args)}
        res.states += 1
        res.nontrivial += 1
        rejected = False
        # deepest first so that paths stay valid
        for p in sorted(subset, key=len, reverse=True):
          node = follow(c, p)
          before_node = canon.canon_cfg(c)
          try:
            auto_config.inline(node)
            res.transitions += 1
          except Exception as e:  # pylint: disable=broad-except
            # a node that inline() cannot express is refused: nothing changed
            res.counters['inline_refused'] += 1
            if canon.canon_cfg(c) != before_node:
              res.violation('C20/inline-refused-but-modified-the-config',
                            f'{case}: {type(e).__name__}: {e}', case)
              rejected = True
              break
        if rejected:
          continue
        got = build_canon(c)
        res.outcomes['inline:' + got[0]] += 1
        if got != base:
          res.violation('C20/build-differs/inline',
                        f'{case}: {base} vs {got}', case)
  res.sample({'inline_programs': 'vfx.acfg.outer, outer2', 'nodes': len(paths)})


# ------------------------------------------------------------ dataclasses
@dataclasses.dataclass
class Pt:
  x: object = 0
  y: object = dataclasses.field(default_factory=list)


@dataclasses.dataclass(frozen=True)
class Fz:
  p: object = None
  q: object = 'q'


@dataclasses.dataclass
class Pi:
  width: object = 1
  cache: object = dataclasses.field(init=False, default='uncomputed')
  inner: object = None
  label: object = 'lbl'

  def __post_init__(self):
    self.cache = ('computed-from', repr(self.width))


def dc_values(depth):
  yield 'leaf'
  yield 7
  if depth == 0:
    return
  subs = list(dc_values(depth - 1))
  for s in subs:
    yield Pt(s)
    yield Pt(1, [s])
    yield Fz(s)
    yield Pi(s, 'in', 'lab')
    yield Pi(2, s)
    yield [s, 'l']
    yield (s,)
    yield {'k': s}


def dc_canon(x):
  """Structural form of dataclass graphs (by field values and sharing)."""
  memo = {}

  def c(v):
    if dataclasses.is_dataclass(v) and not isinstance(v, type):
      if id(v) in memo:
        return ('ref', memo[id(v)])
      memo[id(v)] = len(memo)
      return (type(v).__name__, memo[id(v)], tuple(
          (f.name, c(getattr(v, f.name))) for f in dataclasses.fields(v)))
    if isinstance(v, list):
      if id(v) in memo:
        return ('ref', memo[id(v)])
      memo[id(v)] = len(memo)
      return ('list', memo[id(v)], tuple(c(a) for a in v))
    if isinstance(v, tuple):
      return ('tuple', tuple(c(a) for a in v))
    if isinstance(v, dict):
      if id(v) in memo:
        return ('ref', memo[id(v)])
      memo[id(v)] = len(memo)
      return ('dict', memo[id(v)], tuple((k, c(a)) for k, a in v.items()))
    return (type(v).__name__, repr(v))

  return c(x)


def run_dataclasses(res, depth):
  vals = list(dc_values(depth))
  # roots: every value, plus pairs sharing one instance
  roots = [(('single', i), (lambda i=i: list(dc_values(depth))[i]))
           for i in range(len(vals))]

  def shared(i):
    v = list(dc_values(depth))[i]
    return Pt(v, [v, Fz(v)])

  roots += [(('shared', i), (lambda i=i: shared(i))) for i in range(len(vals))]
  for key, mk_root in roots:
    x = mk_root()
    res.states += 1
    res.nontrivial += 1
    case = {'dataclass_graph': list(key), 'repr': repr(x)[:200]}
    before = dc_canon(x)
    try:
      cfg = fdl_dc.convert_dataclasses_to_configs(x, allow_post_init=True)
      built = fdl.build(cfg) if _has_buildable(cfg) else cfg
    except Exception as e:  # pylint: disable=broad-except
      res.violation('C20/transformation-raises/convert_dataclasses',
                    f'{case}: {type(e).__name__}: {e}', case)
      continue
    res.transitions += 1
    res.outcomes['convert_dataclasses'] += 1
    if built != x or dc_canon(built) != before:
      res.violation('C20/build-differs/convert_dataclasses',
                    f'{case}: built {built!r}', case)
    elif dc_canon(x) != before:
      res.violation('C20/convert_dataclasses-modified-input', f'{case}', case)
  res.sample({'dataclass_graphs': len(roots)})


def _has_buildable(v):
  if isinstance(v, fdl.Buildable):
    return True
  if isinstance(v, (list, tuple)):
    return any(_has_buildable(a) for a in v)
  if isinstance(v, dict):
    return any(_has_buildable(a) for a in v.values())
  return False


def run_unit(unit, tier, seed):
  b = bounds(tier)
  res = core.Result()
  if unit[0] == 'inline':
    run_inline(res)
    return res
  if unit[0] == 'dataclasses':
    run_dataclasses(res, b['dc_depth'])
    return res
  k = unit[1]
  for idx, (shape, tagv) in enumerate(all_cases(b)):
    if idx % NCHUNK != k:
      continue
    res.states += 1
    res.evals += 1
    if len(shape) > 1:
      res.nontrivial += 1
    check_case(shape, tagv, res)
    if idx % 997 == 0:
      res.sample({'shape': shape, 'tags': tagv,
                  'config': repr(make(shape, tagv))[:160]})
  return res


def _shape(x):
  return tuple((k, tuple(tuple(s) if isinstance(s, list) else s for s in sl))
               for k, sl in x)


def replay(case):
  res = core.Result()
  if 'inline' in case:
    run_inline(res)
    return res
  if 'dataclass_graph' in case:
    run_dataclasses(res, 3)
    return res
  shape = _shape(case['shape'])
  print('config:', make(shape, case['tags']), ' transform:',
        case['transform'])
  check_case(shape, case['tags'], res, only=case['transform'])
  return res
