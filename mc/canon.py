"""Canonical forms computed by an independent walker.

Never calls daglish / ordered_arguments / __flatten__: reads only the
documented dunder storage of Buildables and plain Python containers.
"""
from __future__ import annotations

import collections
import dataclasses
import enum
import functools
import inspect
import types

from fiddle._src import config as _cfg   # only for the Buildable *type*

Buildable = _cfg.Buildable


_CONSTS = (bool, int, float, complex, str, bytes, type(None), enum.Enum,
           type(Ellipsis), type(NotImplemented))


def _constant_tuple(x):
  """Tuples of constants (recursively) have no identity worth speaking of:
  Python may intern them."""
  return type(x) is tuple and all(
      isinstance(e, _CONSTS) or _constant_tuple(e) for e in x)


def is_namedtuple(x):
  return isinstance(x, tuple) and hasattr(type(x), '_fields') and hasattr(
      type(x), '_asdict')


def sort_key(k):
  return (type(k).__name__, repr(k))


def arg_sort_key(k):
  return (isinstance(k, str), k)


def callable_key(f):
  if isinstance(f, functools.partial):
    return ('partial', callable_key(f.func), len(f.args), tuple(sorted(
        f.keywords)))
  if isinstance(f, types.MethodType):
    return ('method', callable_key(f.__self__), f.__func__.__name__)
  mod = getattr(f, '__module__', None)
  qn = getattr(f, '__qualname__', None)
  if mod is not None and qn is not None:
    tag = getattr(f, '__canon_tag__', None)
    if tag is not None:
      # distinct function objects that share module and qualified name
      # (closures made by one factory)
      return (mod, qn, tag)
    return (mod, qn)
  return ('instance', type(f).__module__, type(f).__qualname__)


class Canon:
  """One canonicalisation pass (owns the first-visit numbering)."""

  def __init__(self, *, tags=True, history=False, dict_order=False,
               fill_defaults=False, tuple_identity=False, serials=False,
               numbering=True, normalize_partials=False, unfold=False):
    self.tags = tags
    self.history = history
    self.dict_order = dict_order
    self.fill_defaults = fill_defaults
    self.tuple_identity = tuple_identity
    self.serials = serials
    self.numbering = numbering
    self.normalize_partials = normalize_partials
    self.unfold = unfold     # never emit refs: compare as trees
    if unfold:
      self.numbering = False
    self.memo = {}
    self.pins = []

  def _visit(self, x):
    """Returns ('ref', n) if seen before, else None after numbering."""
    i = id(x)
    if self.unfold:
      self.memo[i] = -1
      return None
    if i in self.memo:
      return ('ref', self.memo[i])
    self.memo[i] = len(self.memo)
    self.pins.append(x)
    return None

  def __call__(self, x):
    return self.c(x)

  def c(self, x):
    if isinstance(x, Buildable):
      r = self._visit(x)
      if r is not None:
        return r
      n = self.memo[id(x)] if self.numbering else -1
      args = dict(x.__arguments__)
      if self.fill_defaults:
        for idx, (name, p) in enumerate(
            x.__signature_info__.signature.parameters.items()):
          if p.default is not p.empty:
            key = idx if p.kind == p.POSITIONAL_ONLY else name
            if key not in args:
              args[key] = p.default
      items = tuple((k, self.c(args[k]))
                    for k in sorted(args, key=arg_sort_key))
      out = ['B', type(x).__name__, n, callable_key(x.__fn_or_cls__), items]
      if self.tags:
        out.append(tuple(
            (k, tuple(sorted(t.name if hasattr(t, 'name') else repr(t)
                             for t in ts)))
            for k, ts in sorted(x.__argument_tags__.items(),
                                key=lambda kv: arg_sort_key(kv[0])) if ts))
      if self.history:
        out.append(tuple(
            (k, tuple((e.kind.name, self.c(e.new_value)) for e in es))
            for k, es in sorted(x.__argument_history__.items(),
                                key=lambda kv: arg_sort_key(kv[0]))))
      return tuple(out)
    t = type(x)
    if t is list:
      r = self._visit(x)
      if r is not None:
        return r
      n = self.memo[id(x)] if self.numbering else -1
      return ('list', n, tuple(self.c(v) for v in x))
    if t is tuple:
      if self.tuple_identity and x != () and not _constant_tuple(x):
        r = self._visit(x)
        if r is not None:
          return r
        return ('tuple', self.memo[id(x)], tuple(self.c(v) for v in x))
      return ('tuple', tuple(self.c(v) for v in x))
    if is_namedtuple(x):
      if self.tuple_identity:
        # a named tuple is never interned: which object it is can matter
        r = self._visit(x)
        if r is not None:
          return r
        return ('nt', t.__module__, t.__qualname__, self.memo[id(x)],
                tuple(self.c(v) for v in x))
      return ('nt', t.__module__, t.__qualname__, tuple(self.c(v) for v in x))
    if t is dict or t is collections.defaultdict or t is collections.OrderedDict:
      r = self._visit(x)
      if r is not None:
        return r
      n = self.memo[id(x)] if self.numbering else -1
      keys = list(x.keys())
      if not self.dict_order:
        keys.sort(key=sort_key)
      head = ('dict', n) if t is dict else (
          t.__name__, n, callable_key(x.default_factory)
          if getattr(x, 'default_factory', None) is not None else None)
      return head + (tuple((self.c(k), self.c(x[k])) for k in keys),)
    if t is set or t is frozenset:
      if t is set:
        r = self._visit(x)
        if r is not None:
          return r
      return (t.__name__, tuple(sorted((self.c(v) for v in x), key=repr)))
    if isinstance(x, functools.partial):
      if self.normalize_partials:
        # compared as a value (like a bare function): not numbered
        return self._norm_partial(x, -1)
      r = self._visit(x)
      if r is not None:
        return r
      n = self.memo[id(x)] if self.numbering else -1
      return ('partial', n, self.c(x.func), self.c(x.args), self.c(
          dict(x.keywords)))
    rec = _rec_type()
    if rec is not None and isinstance(x, rec):
      r = self._visit(x)
      if r is not None:
        return r
      n = self.memo[id(x)] if self.numbering else -1
      out = ('Rec', n, type(x).__name__, x.fn_key, tuple(
          (k, self.c(v)) for k, v in sorted(x.bound.items())))
      if self.serials:
        out += (x.serial,)
      return out
    if isinstance(x, enum.Enum):
      return ('enum', t.__module__, t.__qualname__, x.name)
    if dataclasses.is_dataclass(x) and not isinstance(x, type):
      r = self._visit(x)
      if r is not None:
        return r
      n = self.memo[id(x)] if self.numbering else -1
      return ('dataclass', t.__module__, t.__qualname__, n, tuple(
          (f.name, self.c(getattr(x, f.name, '<unset>')))
          for f in dataclasses.fields(x)))
    if isinstance(x, (type, types.FunctionType, types.BuiltinFunctionType,
                      types.MethodType)):
      if self.normalize_partials and not isinstance(x, type):
        return ('fn', callable_key(x), ('tuple', ()), ())
      return ('callable', callable_key(x))
    if isinstance(x, types.ModuleType):
      return ('module', x.__name__)
    if isinstance(x, (bool, int, float, complex, str, bytes, type(None),
                      type(Ellipsis), type(NotImplemented), slice, range)):
      return (t.__name__, repr(x))
    if hasattr(x, '__canon__'):
      r = self._visit(x)
      if r is not None:
        return r
      return ('obj', t.__qualname__, self.memo[id(x)], self.c(x.__canon__()))
    if t.__repr__ is object.__repr__:
      r = self._visit(x)
      if r is not None:
        return r
      return ('obj', t.__module__, t.__qualname__, self.memo[id(x)])
    return ('leaf', t.__module__, t.__qualname__, repr(x))

  def _norm_partial(self, p, n):
    f = p.func
    args = tuple(p.args)
    kws = dict(p.keywords)
    while isinstance(f, functools.partial):
      args = tuple(f.args) + args
      kws = {**f.keywords, **kws}
      f = f.func
    try:
      sig = inspect.signature(f)
      for k in list(kws):
        prm = sig.parameters.get(k)
        if prm is not None and prm.default is not prm.empty:
          d = prm.default
          if self.__class__(numbering=False).c(d) == self.__class__(
              numbering=False).c(kws[k]):
            del kws[k]
    except (ValueError, TypeError):
      pass
    return ('fn', callable_key(f), self.c(args), tuple(
        (k, self.c(v)) for k, v in sorted(kws.items())))


_REC = [None, False]


def _rec_type():
  if not _REC[1]:
    try:
      import vfx  # pylint: disable=g-import-not-at-top
      _REC[0] = vfx.Rec
    except ImportError:
      _REC[0] = None
    _REC[1] = True
  return _REC[0]


def canon_cfg(x, **kw):
  return Canon(**kw).c(x)


def canon_built(x, **kw):
  return Canon(**kw).c(x)


def mutable_ids(x, *, deep_storage=True):
  """{id: obj} of every mutable object reachable (incl. argument storage)."""
  out = {}

  def walk(v):
    if isinstance(v, Buildable):
      if id(v) in out:
        return
      out[id(v)] = v
      if deep_storage:
        out[id(v.__arguments__)] = v.__arguments__
        out[id(v.__argument_tags__)] = v.__argument_tags__
        for s in v.__argument_tags__.values():
          out[id(s)] = s
        h = v.__argument_history__
        out[id(h)] = h
        for lst in h.values():
          out[id(lst)] = lst
      for a in v.__arguments__.values():
        walk(a)
    elif isinstance(v, (list, set)):
      if id(v) in out:
        return
      out[id(v)] = v
      for a in v:
        walk(a)
    elif isinstance(v, dict):
      if id(v) in out:
        return
      out[id(v)] = v
      for a in v.values():
        walk(a)
    elif isinstance(v, tuple):
      for a in v:
        walk(a)
    elif isinstance(v, functools.partial):
      if id(v) in out:
        return
      out[id(v)] = v
      for a in v.args:
        walk(a)
      for a in v.keywords.values():
        walk(a)
    else:
      rec = _rec_type()
      if rec is not None and isinstance(v, rec):
        if id(v) in out:
          return
        out[id(v)] = v
        for a in v.bound.values():
          walk(a)

  walk(x)
  return out


def children(x):
  """Independent child enumeration: list of (path_element_spec, child).

  path element spec: ('attr', name) | ('index', i) | ('key', k)
  """
  if isinstance(x, Buildable):
    # signature order for named, ints for positional-only/varargs
    params = list(x.__signature_info__.signature.parameters.values())
    out = []
    args = x.__arguments__
    for idx, p in enumerate(params):
      if p.kind == p.POSITIONAL_ONLY:
        if idx in args:
          out.append((('index', idx), args[idx]))
      elif p.kind in (p.POSITIONAL_OR_KEYWORD, p.KEYWORD_ONLY):
        if p.name in args:
          out.append((('attr', p.name), args[p.name]))
      elif p.kind == p.VAR_POSITIONAL:
        i = idx
        while i in args:
          out.append((('index', i), args[i]))
          i += 1
    named = {p.name for p in params
             if p.kind in (p.POSITIONAL_OR_KEYWORD, p.KEYWORD_ONLY)}
    for k, v in args.items():
      if isinstance(k, str) and k not in named:
        out.append((('attr', k), v))
    return out
  if is_namedtuple(x):
    return [(('attr', n), v) for n, v in zip(type(x)._fields, x)]
  if isinstance(x, (list, tuple)):
    return [(('index', i), v) for i, v in enumerate(x)]
  if isinstance(x, dict):
    return [(('key', k), v) for k, v in x.items()]
  return None


def all_paths(root):
  """Every (path, object) by brute-force unfolding (no memo). Paths are tuples
  of path element specs."""
  out = []

  def walk(v, path, stack):
    out.append((path, v))
    ch = children(v)
    if ch is None:
      return
    if id(v) in stack:
      raise RecursionError('cycle')
    stack.add(id(v))
    for pe, c in ch:
      walk(c, path + (pe,), stack)
    stack.discard(id(v))

  walk(root, (), set())
  return out
