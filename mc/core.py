"""Shared runner machinery: results, parallel fan-out, evidence, known findings.

A check module (mc/cXX.py) defines

  PROP        property id
  LEVEL       evidence level / MANIFEST category
  RULE        text: how cases are enumerated, what makes one distinct
  ASSUMPTIONS list of strings
  def bounds(tier) -> dict                     (reported in evidence)
  def units(tier, seed) -> list of picklable work units (complete space)
  def run_unit(unit, tier, seed) -> Result
  def replay(case) -> Result                   (linear re-run of one case)

Nothing here imports fiddle.
"""
from __future__ import annotations

import collections
import hashlib
import json
import multiprocessing
import os
import sys
import time
import traceback

VERIF = os.path.dirname(os.path.dirname(os.path.abspath(__file__)))
# runs against a scratch tree (VERIF_REPO, used only by tools/ when trying a
# seeded change) write their evidence / replays elsewhere so that the
# evidence of /repo itself is never overwritten by them
_OUT = os.environ.get('VERIF_OUT') or VERIF
EVIDENCE_DIR = os.path.join(_OUT, 'evidence')
REPLAY_DIR = os.path.join(_OUT, 'replays')
KNOWN_FILE = os.path.join(VERIF, 'known_findings.json')


class Result:
  """What one work unit covered."""

  __slots__ = ('states', 'transitions', 'evals', 'outcomes', 'violations',
               'samples', 'counters', 'nontrivial', 'caps')

  def __init__(self):
    self.states = 0          # distinct canonical states / inputs
    self.transitions = 0     # operations applied / API executions on real code
    self.evals = 0           # cases generated
    self.nontrivial = 0      # distinct non-trivial cases (rule per check)
    self.outcomes = collections.Counter()  # outcome class -> count
    self.violations = []     # dicts: key, what, case
    self.samples = []
    self.counters = collections.Counter()  # skipped_out_of_domain, rejected..
    self.caps = []

  def violation(self, key, what, case):
    self.violations.append({'key': key, 'what': what, 'case': case})

  def sample(self, s, limit=2):
    if len(self.samples) < limit:
      self.samples.append(s)

  def merge(self, other: 'Result'):
    self.states += other.states
    self.transitions += other.transitions
    self.evals += other.evals
    self.nontrivial += other.nontrivial
    self.outcomes.update(other.outcomes)
    self.violations.extend(other.violations)
    for s in other.samples:
      if len(self.samples) < 6:
        self.samples.append(s)
    self.counters.update(other.counters)
    self.caps.extend(other.caps)

  def pack(self):
    return {k: getattr(self, k) for k in self.__slots__}

  @classmethod
  def unpack(cls, d):
    r = cls()
    for k, v in d.items():
      setattr(r, k, v)
    return r


def jsonable(x):
  """Best-effort JSON projection of a case descriptor."""
  if isinstance(x, (str, int, float, bool)) or x is None:
    return x
  if isinstance(x, (list, tuple)):
    return [jsonable(i) for i in x]
  if isinstance(x, dict):
    return {str(k): jsonable(v) for k, v in x.items()}
  if isinstance(x, (set, frozenset)):
    return sorted(jsonable(i) for i in x)
  return repr(x)


def load_known():
  try:
    with open(KNOWN_FILE) as f:
      return json.load(f)
  except FileNotFoundError:
    return {'findings': [], 'fixed': []}


_MOD = None
_TIER = None
_SEED = None


def _worker(args):
  idx, unit = args
  try:
    r = _MOD.run_unit(unit, _TIER, _SEED)
    return idx, r.pack(), None
  except BaseException as e:  # harness error: never silently dropped
    return idx, None, ''.join(traceback.format_exception(e))[-4000:]


def run_check(mod, tier, seed, jobs=None, time_cap=None):
  """Runs a complete check; returns exit code."""
  global _MOD, _TIER, _SEED
  _MOD, _TIER, _SEED = mod, tier, seed
  t0 = time.time()
  prop = mod.PROP
  units = list(mod.units(tier, seed))
  n_units = len(units)
  jobs = jobs or int(os.environ.get('VERIF_JOBS', '0')) or min(
      16, os.cpu_count() or 1)
  if time_cap is None:
    time_cap = float(os.environ.get(
        'VERIF_TIME_CAP', '900' if tier == 'quick' else '3000'))
  total = Result()
  harness_errors = []
  done = 0
  capped = False
  if jobs <= 1 or n_units <= 1:
    for i, u in enumerate(units):
      _, packed, err = _worker((i, u))
      if err:
        harness_errors.append((i, err))
      else:
        total.merge(Result.unpack(packed))
      done += 1
      if time.time() - t0 > time_cap:
        capped = done < n_units
        break
  else:
    ctx = multiprocessing.get_context('fork')
    with ctx.Pool(jobs) as pool:
      it = pool.imap_unordered(_worker, list(enumerate(units)), chunksize=1)
      while done < n_units:
        remaining = time_cap - (time.time() - t0)
        try:
          # the cap is enforced also while every worker is inside a long unit
          idx, packed, err = it.next(timeout=max(remaining, 0.1))
        except multiprocessing.TimeoutError:
          capped = True
          pool.terminate()
          break
        except StopIteration:
          break
        if err:
          harness_errors.append((idx, err))
        else:
          total.merge(Result.unpack(packed))
        done += 1
        if time.time() - t0 > time_cap and done < n_units:
          capped = True
          pool.terminate()
          break
  wall = time.time() - t0
  # A work unit that crashes is reported as a violation of its own class: on
  # the unchanged tree no unit crashes, so a crash means the code under test
  # behaved in a way the harness considers impossible. The replay re-runs
  # that unit.
  for idx, err in harness_errors:
    last = err.strip().splitlines()[-1] if err.strip() else 'unknown'
    etype = last.split(':', 1)[0].split('.')[-1][:40]
    total.violations.append({
        'key': f'{prop}/check-crashed/{etype}',
        'what': f'work unit {idx} ({units[idx]!r}) crashed:\n{err[-1500:]}',
        'case': {'unit_index': idx, 'tier': tier, 'seed': seed}})
  if capped:
    total.caps.append(
        f'time cap {time_cap}s hit after {done}/{n_units} work units')

  # ---- classify violations
  known = load_known()
  known_keys = {
      f['key']: f for f in known.get('findings', []) if f['property'] == prop
  }
  by_key = collections.OrderedDict()
  for v in total.violations:
    k = v['key']
    cur = by_key.get(k)
    size = len(json.dumps(jsonable(v['case']), sort_keys=True))
    if cur is None:
      by_key[k] = dict(v, count=1, size=size)
    else:
      cur['count'] += 1
      if size < cur['size'] or (size == cur['size'] and json.dumps(
          jsonable(v['case']), sort_keys=True) < json.dumps(
              jsonable(cur['case']), sort_keys=True)):
        cnt = cur['count']
        by_key[k] = dict(v, count=cnt, size=size)
  unknown = []
  matched = []
  for k, v in by_key.items():
    if k in known_keys:
      matched.append((k, v))
    else:
      unknown.append((k, v))
  for k, v in matched:
    print(f'KNOWN-FINDING: property={prop} {known_keys[k]["what"]} '
          f'[key={k} occurrences={v["count"]}]')
  exit_code = 0
  replay_paths = []
  for k, v in unknown:
    os.makedirs(os.path.join(REPLAY_DIR, prop), exist_ok=True)
    case = jsonable(v['case'])
    h = hashlib.sha1(
        json.dumps([k, case], sort_keys=True).encode()).hexdigest()[:12]
    path = os.path.join(REPLAY_DIR, prop, f'{h}.json')
    with open(path, 'w') as f:
      json.dump({'property': prop, 'key': k, 'what': v['what'], 'case': case,
                 'tier': tier, 'seed': seed, 'occurrences': v['count']}, f,
                indent=1, sort_keys=True)
    print(f'VIOLATION property={prop} replay={path}')
    print(f'  key={k} occurrences={v["count"]}\n  {v["what"][:1500]}')
    replay_paths.append(path)
    exit_code = 1
  for idx, err in harness_errors[:5]:
    print(f'HARNESS-ERROR property={prop} unit={idx}\n{err}', file=sys.stderr)

  exhaustive = not capped and not harness_errors and not total.caps
  coverage = {
      'states': total.states,
      'transitions': total.transitions,
      'traces_validated_against_impl': total.transitions,
      'evaluations': total.evals or total.transitions,
      'distinct_nontrivial': total.nontrivial or total.states,
      'rule': mod.RULE,
      'samples': [jsonable(s) for s in total.samples] or ['<none>'],
      'exhaustive': exhaustive,
      'bounds': jsonable(mod.bounds(tier)),
      'work_units': n_units,
      'work_units_completed': done,
      'caps_hit': total.caps,
      'distinct_outcomes': len(total.outcomes),
      'outcome_histogram': dict(total.outcomes.most_common(40)),
      'counters': dict(total.counters),
      'known_findings_matched': [k for k, _ in matched],
      'violation_keys': [k for k, _ in unknown],
      'harness_errors': len(harness_errors),
      'jobs': jobs,
  }
  if mod.LEVEL == 'translation_validation':
    # every emitted program is executed and compared with its source
    coverage['programs'] = total.transitions
    coverage['disagreements_checked'] = total.transitions
  ev = {
      'property_id': prop,
      'tier': tier,
      'seed': seed,
      'level': mod.LEVEL,
      'coverage': coverage,
      'assumptions': list(mod.ASSUMPTIONS),
      'wall_s': round(wall, 2),
      'violations': len(unknown),
  }
  os.makedirs(EVIDENCE_DIR, exist_ok=True)
  with open(os.path.join(EVIDENCE_DIR, f'{prop}.json'), 'w') as f:
    json.dump(ev, f, indent=1, sort_keys=True)
  print(f'{prop} tier={tier} seed={seed} units={done}/{n_units} '
        f'states={total.states} transitions={total.transitions} '
        f'outcomes={len(total.outcomes)} violations={len(unknown)} '
        f'known={len(matched)} exhaustive={exhaustive} wall={wall:.1f}s')
  return exit_code


def run_replay(mod, path):
  with open(path) as f:
    doc = json.load(f)
  print(f'replaying {doc["property"]} key={doc["key"]}')
  print(f'recorded: {doc["what"]}')
  if isinstance(doc['case'], dict) and 'unit_index' in doc['case']:
    c = doc['case']
    units = list(mod.units(c['tier'], c['seed']))
    r = mod.run_unit(units[c['unit_index']], c['tier'], c['seed'])
  else:
    r = mod.replay(doc['case'])
  if r.violations:
    for v in r.violations:
      print(f'REPRODUCED key={v["key"]}\n  {v["what"]}')
    return 1
  print('not reproduced (property held on this case)')
  return 0
