"""Regenerates /verif/MANIFEST.json from the check modules' metadata."""
import importlib
import json
import os
import sys

VERIF = os.path.dirname(os.path.dirname(os.path.abspath(__file__)))
ALL = ['C%02d' % i for i in range(1, 21)]


def main():
  checks = []
  na = []
  for pid in ALL:
    path = os.path.join(VERIF, 'mc', pid.lower() + '.py')
    if not os.path.exists(path):
      na.append({'property_id': pid,
                 'reason': 'check not built yet (in progress; see DESIGN.md '
                           'section 4 for the planned bounded enumeration)'})
      continue
    mod = importlib.import_module('mc.' + pid.lower())
    checks.append({
        'property_id': pid,
        'quick_cmd': f'./check {pid} --tier quick',
        'thorough_cmd': f'./check {pid} --tier thorough',
        'evidence_file': f'/verif/evidence/{pid}.json',
        'replay_cmd_template': f'./check {pid} --replay {{path}}',
        'engine': 'mc',
        'level_claimed': {
            'category': mod.LEVEL,
            'text': mod.LEVEL_TEXT,
            'design_ref': f'DESIGN.md section 4, {pid}',
        },
        'level_note': mod.LEVEL_NOTE,
        'technique': mod.TECHNIQUE,
    })
  man = {
      'version': 1,
      'setup_cmd': 'true',
      'hooks': {
          'guard': 'FIDDLE_VERIF',
          'enable': 'no hooks: checks import fiddle from /repo working tree '
                    '(editable install) and observe it through public API '
                    'and sys.settrace',
          'baseline_off_cmd': 'cd /repo && /venv/bin/python -m pytest -ra -q '
                              '-p no:cacheprovider --timeout=900 '
                              '--continue-on-collection-errors',
          'source_commits': [],
          'add_only': True,
      },
      'engines': [{
          'name': 'mc',
          'path': '/verif/mc',
          'serves_properties': [c['property_id'] for c in checks],
          'kind_free_text': 'hand-written bounded exhaustive explorer in '
                            'Python: explicit-state BFS over the real '
                            'transition function, bounded-exhaustive shape / '
                            'program / fault enumeration and a preemption-'
                            'bounded deterministic thread scheduler, each '
                            'against a reference model',
      }],
      'checks': checks,
      'not_applicable': na,
      'notes': 'All checks run /repo working tree code directly '
               '(PYTHONPATH=/repo). known_findings.json lists recorded '
               'defects and fix: commits.',
  }
  with open(os.path.join(VERIF, 'MANIFEST.json'), 'w') as f:
    json.dump(man, f, indent=1)
  print('checks:', [c['property_id'] for c in checks])


if __name__ == '__main__':
  sys.path.insert(0, VERIF)
  main()
