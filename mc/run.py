"""CLI: python -m mc.run <ID> [--tier quick|thorough] [--replay FILE]."""
import argparse
import importlib
import logging
import os
import sys


def main():
  ap = argparse.ArgumentParser()
  ap.add_argument('prop')
  ap.add_argument('--tier', default=os.environ.get('VERIF_TIER', 'quick'))
  ap.add_argument('--replay')
  ap.add_argument('--jobs', type=int)
  args = ap.parse_args()
  if os.environ.get('PYTHONHASHSEED') != '0':
    env = dict(os.environ, PYTHONHASHSEED='0', PYTHONDONTWRITEBYTECODE='1')
    os.execve(sys.executable, [sys.executable, '-m', 'mc.run'] + sys.argv[1:],
              env)
  logging.disable(logging.CRITICAL)
  try:
    from absl import logging as absl_logging
    absl_logging.set_verbosity(absl_logging.FATAL)
  except Exception:  # pylint: disable=broad-except
    pass
  sys.setrecursionlimit(3000)
  from mc import core
  mod = importlib.import_module('mc.' + args.prop.lower())
  tier = args.tier if args.tier in ('quick', 'thorough') else 'quick'
  try:
    seed = int(os.environ.get('VERIF_SEED', '0'))
  except ValueError:
    seed = 0
  if args.replay:
    sys.exit(core.run_replay(mod, args.replay))
  sys.exit(core.run_check(mod, tier, seed, jobs=args.jobs))


if __name__ == '__main__':
  main()
