"""Deterministic scheduler for real threads + preemption-bounded exploration.

Real `threading.Thread`s run under `sys.settrace`; every `line` event whose
code lives under fiddle/_src (tests excluded) is a scheduling point, and so is
every explicit `point()` call made by harness callables. Exactly one thread is
runnable at any time (per-thread semaphore baton). A schedule is the map
{global step index -> thread to switch to}; everywhere else the running thread
continues (or, when it finishes, the lowest-numbered unfinished thread runs).
Exploration is stateless and preemption-bounded (iterative context bounding).
"""
from __future__ import annotations

import os
import sys
import threading

FIDDLE_SRC = os.sep + os.path.join('fiddle', '_src') + os.sep
_local = threading.local()


class HarnessError(Exception):
  pass


def point(label='explicit'):
  """Explicit scheduling point for harness callables."""
  run = getattr(_local, 'run', None)
  if run is not None:
    run._point(_local.tid, label)


class Execution:
  """One complete run of all thread bodies under one schedule."""

  def __init__(self, bodies, switches, horizon=200000, order=None):
    self.bodies = bodies
    self.order = list(order) if order else list(range(len(bodies)))
    self.switches = dict(switches)      # step -> tid
    self.horizon = horizon
    n = len(bodies)
    self.batons = [threading.Semaphore(0) for _ in range(n)]
    self.back = threading.Semaphore(0)
    self.finished = [False] * n
    self.results = [None] * n
    self.step = 0
    self.trace = []          # (tid, label) for every point
    self._meta = None
    self.finish_steps = {}   # tid -> number of points executed before it ended
    self.current = None
    self.error = None
    self.want = None         # tid the scheduler must hand the baton to

  # ---- thread side
  def _tracer(self, frame, event, arg):
    co = frame.f_code
    fn = co.co_filename
    if FIDDLE_SRC in fn and not fn.endswith('_test.py'):
      return self._line_tracer
    return None

  def _line_tracer(self, frame, event, arg):
    if event == 'line':
      self._point(_local.tid, (frame.f_code, frame.f_lineno))
    return self._line_tracer

  def _point(self, tid, label):
    step = self.step
    self.trace.append((tid, label))
    self.step = step + 1
    if step >= self.horizon:
      self.error = 'horizon exceeded (livelock?)'
      raise HarnessError(self.error)
    nxt = self.switches.get(step)
    if nxt is not None and nxt != tid:
      if self.finished[nxt]:
        self.error = f'schedule switches to finished thread {nxt} at {step}'
        raise HarnessError(self.error)
      # hand over and wait to be resumed
      self.want = nxt
      self.back.release()
      self.batons[tid].acquire()

  def label(self, step):
    tid, lab = self.trace[step]
    if isinstance(lab, tuple) and hasattr(lab[0], 'co_filename'):
      lab = (os.path.basename(lab[0].co_filename), lab[0].co_name, lab[1])
    return tid, lab

  @property
  def points_meta(self):
    """Per step: (running thread, enabled threads at that step)."""
    if self._meta is None:
      fin = sorted(self.finish_steps.items(), key=lambda kv: kv[1])
      meta = []
      n = len(self.bodies)
      for step, (tid, _) in enumerate(self.trace):
        enabled = tuple(i for i in range(n)
                        if self.finish_steps.get(i, 1 << 60) > step)
        meta.append((tid, enabled))
      self._meta = meta
    return self._meta

  def _thread_main(self, tid):
    self.batons[tid].acquire()
    _local.run = self
    _local.tid = tid
    sys.settrace(self._tracer)
    try:
      self.results[tid] = ('ok', self.bodies[tid]())
    except HarnessError as e:
      self.results[tid] = ('harness-error', str(e))
    except BaseException as e:  # pylint: disable=broad-except
      self.results[tid] = ('raise', type(e).__name__, str(e)[:200])
    finally:
      sys.settrace(None)
      _local.run = None
      self.finished[tid] = True
      self.finish_steps[tid] = self.step
      self.want = None
      self.back.release()

  # ---- scheduler side
  def run(self):
    n = len(self.bodies)
    threads = [threading.Thread(target=self._thread_main, args=(i,),
                                daemon=True) for i in range(n)]
    for t in threads:
      t.start()
    # who starts, and who continues when a thread finishes: `order`
    cur = self.order[0]
    self.first = cur
    while True:
      self.current = cur
      self.batons[cur].release()
      if not self.back.acquire(timeout=60):
        self.error = 'scheduler timeout (deadlock?)'
        break
      if self.error:
        break
      if self.want is not None:
        cur = self.want
        self.want = None
        continue
      # the running thread finished
      rest = [i for i in self.order if not self.finished[i]]
      if not rest:
        break
      cur = rest[0]
    if self.error:
      # release everybody so that the daemon threads can die
      self.horizon = -1
      for b in self.batons:
        b.release()
    for t in threads:
      t.join(timeout=5)
    return self


def preemptions(meta, first, switches):
  """Number of preemptive switches in a schedule, given the points of the
  execution it produced."""
  count = 0
  for step, nxt in switches.items():
    if step < 0:
      continue
    running, enabled = meta[step]
    if nxt != running and running in enabled:
      count += 1
  return count


def explore(make_bodies, bound, on_execution, max_executions=None,
            initial_orders=True, occurrence_cap=None):
  """Runs every schedule with at most `bound` preemptions.

  make_bodies(): fresh list of zero-arg callables (fresh state per execution).
  on_execution(execution, switches): called for every complete execution.
  occurrence_cap: if set, a thread is preempted only at the first
    `occurrence_cap` dynamic occurrences of each source line.
  Returns dict(executions, max_points, capped).
  """
  import itertools  # pylint: disable=g-import-not-at-top
  n = len(make_bodies())
  stack = []
  orders = (list(itertools.permutations(range(n))) if initial_orders
            else [tuple(range(n))])
  for o in orders:
    stack.append((o, {}, 0))          # (order, switches, preemptions used)
  seen = set()
  executions = 0
  capped = False
  max_points = 0
  while stack:
    order, switches, used = stack.pop()
    key = (order, tuple(sorted(switches.items())))
    if key in seen:
      continue
    seen.add(key)
    ex = Execution(make_bodies(), switches, order=order).run()
    executions += 1
    if ex.error:
      raise HarnessError(f'{ex.error}; schedule {switches}')
    on_execution(ex, (order, switches))
    max_points = max(max_points, len(ex.points_meta))
    if max_executions and executions >= max_executions:
      capped = True
      break
    last = max([s for s in switches if s >= 0], default=-1)
    meta = ex.points_meta
    occ = {}
    for step in range(len(meta)):
      key2 = ex.trace[step]
      occ[key2] = occ.get(key2, 0) + 1
      if step <= last:
        continue
      if occurrence_cap is not None and occ[key2] > occurrence_cap:
        # bound: only the first `occurrence_cap` dynamic occurrences of a
        # source line (per thread) are preemption candidates
        continue
      running, enabled = meta[step]
      for alt in enabled:
        if alt == running:
          continue
        cost = used + 1      # running is at a point, hence still enabled
        if cost <= bound:
          nsw = dict(switches)
          nsw[step] = alt
          stack.append((order, nsw, cost))
  return dict(executions=executions, max_points=max_points, capped=capped)
