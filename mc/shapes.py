"""Bounded-exhaustive generator of configuration DAGs ("Engine B").

A shape is a tuple of node definitions in topological order; node i is
(kind, slots); each slot is 'U' (unset; Buildable kinds only), ('L', k) a
leaf from the leaf alphabet, or ('R', j) a reference to an earlier node j < i.
The last node is the root; shapes with unreachable nodes are pruned; isomorphic
duplicates (same DAG, different node order) are removed by a canonical key.
"""
from __future__ import annotations

import functools
import itertools


class Kind:
  """kind name, number of slots, whether slots may be unset, builder."""

  def __init__(self, name, nslots, allow_unset, make, is_buildable=False,
               leaf_only=False):
    self.leaf_only = leaf_only
    self.name = name
    self.nslots = nslots
    self.allow_unset = allow_unset
    self.make = make              # make(list of slot values, U marker) -> obj
    self.is_buildable = is_buildable


UNSET = 'U'


def _slot_choices(i, nleaves, allow_unset, allow_leaf=True):
  out = []
  if allow_unset:
    out.append(UNSET)
  if allow_leaf:
    out.extend(('L', k) for k in range(nleaves))
  out.extend(('R', j) for j in range(i))
  return out


def _reachable(shape):
  n = len(shape)
  seen = {n - 1}
  stack = [n - 1]
  while stack:
    i = stack.pop()
    for s in shape[i][1]:
      if isinstance(s, tuple) and s[0] == 'R' and s[1] not in seen:
        seen.add(s[1])
        stack.append(s[1])
  return len(seen) == n


def canon_key(shape):
  """Order-independent key: DFS from the root with first-visit numbering."""
  n = len(shape)
  num = {}
  out = []

  def visit(i):
    if i in num:
      return ('ref', num[i])
    num[i] = len(num)
    kind, slots = shape[i]
    return (kind, tuple(
        visit(s[1]) if isinstance(s, tuple) and s[0] == 'R' else s
        for s in slots))

  return visit(n - 1)


def enumerate_shapes(kinds, n_nodes, nleaves=1, root_kinds=None,
                     max_total_slots=None):
  """Yields every distinct shape with exactly n_nodes nodes."""
  kinds = list(kinds)
  seen = set()

  def rec(prefix):
    i = len(prefix)
    if i == n_nodes:
      shape = tuple(prefix)
      if not _reachable(shape):
        return
      k = canon_key(shape)
      if k in seen:
        return
      seen.add(k)
      yield shape
      return
    for kind in kinds:
      if i == n_nodes - 1 and root_kinds and kind.name not in root_kinds:
        continue
      choices = _slot_choices(0 if kind.leaf_only else i, nleaves,
                              kind.allow_unset)
      for slots in itertools.product(choices, repeat=kind.nslots):
        # early prune: every earlier node must still be referencable; cheap
        # check only at the end (reachability)
        yield from rec(prefix + [(kind.name, slots)])

  yield from rec([])


def materialize(shape, kinds_by_name, leaves):
  """Builds the objects; returns the list of node objects (root last)."""
  objs = []
  for kind, slots in shape:
    vals = []
    for s in slots:
      if s == UNSET:
        vals.append(UNSET)
      elif s[0] == 'L':
        vals.append(leaves[s[1]])
      else:
        vals.append(objs[s[1]])
    objs.append(kinds_by_name[kind].make(vals))
  return objs


def all_shapes(kinds, max_nodes, nleaves=1, root_kinds=None):
  for n in range(1, max_nodes + 1):
    yield from enumerate_shapes(kinds, n, nleaves, root_kinds)


def shape_size(shape):
  return (len(shape), sum(1 for _, sl in shape for s in sl if s != UNSET))


# ---------------------------------------------------------------- std kinds
def std_kinds(names, cfg_fn=None, cfg_fn2=None, partial_fn=None):
  """Standard menu. Imports fiddle lazily."""
  import collections  # pylint: disable=g-import-not-at-top
  import fiddle as fdl  # pylint: disable=g-import-not-at-top
  from vfx import nodes as N  # pylint: disable=g-import-not-at-top
  cfg_fn = cfg_fn or N.node
  cfg_fn2 = cfg_fn2 or N.node_b
  partial_fn = partial_fn or N.node

  def mk_buildable(cls, fn):
    def make(vals):
      kw = {}
      for name, v in zip(('x', 'y'), vals):
        if v is not UNSET:
          kw[name] = v
      return cls(fn, **kw)
    return make

  def mk_dict(vals):
    return {k: v for k, v in zip(('a', 'b'), vals)}

  def mk_cfgpos(vals):
    c = fdl.Config(N.node_pos)
    p0, a, va0 = vals
    if p0 is not UNSET:
      c[0] = p0
    if a is not UNSET:
      c.a = a
    if va0 is not UNSET:
      c[fdl.VARARGS:] = [va0]
    return c

  def mk_eqpos(vals):
    c = fdl.Config(N.eqpos)
    p0, a, va0 = vals
    if p0 is not UNSET:
      c[0] = p0
    if a is not UNSET:
      c.a = a
    if va0 is not UNSET:
      c[fdl.VARARGS:] = [va0]
    return c

  table = {
      'eq': Kind('eq', 2, True, mk_buildable(fdl.Config, N.eqnode), True),
      'eqb': Kind('eqb', 2, True, mk_buildable(fdl.Config, N.eqnode_b), True),
      'eqpar': Kind('eqpar', 2, True, mk_buildable(fdl.Partial, N.eqnode),
                    True),
      'eqpos': Kind('eqpos', 3, True, mk_eqpos, True),
      'eq3': Kind('eq3', 3, True, lambda vals: fdl.Config(N.eq3, **{
          n: v for n, v in zip(('x', 'y', 'z'), vals) if v is not UNSET}),
                  True),
      'dict2r': Kind('dict2r', 2, False,
                     lambda v: {k: x for k, x in zip(('b', 'a'), reversed(v))}),
      'dictmix': Kind('dictmix', 2, False,
                      lambda v: {1: v[0], 'a': v[1], None: 0, (1,): 0}),
      'dictenum': Kind('dictenum', 2, False, lambda v: {
          N.Color.RED: v[0], N.Color.BLUE: v[1], (1, 'a'): 0, ('a', 1): 0}),
      'dictenumr': Kind('dictenumr', 2, False, lambda v: {
          ('a', 1): 0, (1, 'a'): 0, N.Color.BLUE: v[1], N.Color.RED: v[0]}),
      # keys that Python orders only partially (sets) or not transitively
      # across types, in several insertion orders
      'dictfs': Kind('dictfs', 2, False, lambda v: {
          frozenset({1}): v[0], frozenset({2}): v[1]}),
      'dictfsr': Kind('dictfsr', 2, False, lambda v: {
          frozenset({2}): v[1], frozenset({1}): v[0]}),
      'dictcyc': Kind('dictcyc', 2, False, lambda v: {
          2: v[0], 2.5: 0, frozenset({3}): v[1]}),
      'dictcycr': Kind('dictcycr', 2, False, lambda v: {
          frozenset({3}): v[1], 2.5: 0, 2: v[0]}),
      'dictcycm': Kind('dictcycm', 2, False, lambda v: {
          2.5: 0, frozenset({3}): v[1], 2: v[0]}),
      'dictmixr': Kind('dictmixr', 2, False,
                       lambda v: {(1,): 0, None: 0, 'a': v[1], 1: v[0]}),
      'cfgpos': Kind('cfgpos', 3, True, mk_cfgpos, True),
      'cfg': Kind('cfg', 2, True, mk_buildable(fdl.Config, cfg_fn), True),
      'cfg1': Kind('cfg1', 1, True, mk_buildable(fdl.Config, cfg_fn), True),
      'cfgb': Kind('cfgb', 2, True, mk_buildable(fdl.Config, cfg_fn2), True),
      'par': Kind('par', 2, True, mk_buildable(fdl.Partial, partial_fn), True),
      'par1': Kind('par1', 1, True, mk_buildable(fdl.Partial, partial_fn),
                   True),
      'argf': Kind('argf', 1, True, mk_buildable(fdl.ArgFactory, partial_fn),
                   True),
      'list0': Kind('list0', 0, False, lambda v: []),
      'list1': Kind('list1', 1, False, list),
      'list2': Kind('list2', 2, False, list),
      'tuple0': Kind('tuple0', 0, False, lambda v: ()),
      'tuple1': Kind('tuple1', 1, False, tuple),
      'tuple2': Kind('tuple2', 2, False, tuple),
      'dict0': Kind('dict0', 0, False, lambda v: {}),
      'dict1': Kind('dict1', 1, False, mk_dict),
      'dict2': Kind('dict2', 2, False, mk_dict),
      'nt': Kind('nt', 2, False, lambda v: N.Pair(*v)),
      'ddict1': Kind('ddict1', 1, False, lambda v: collections.defaultdict(
          list, {'a': v[0]})),
      # a defaultdict whose insertion order is not its sorted key order
      'ddict2r': Kind('ddict2r', 2, False, lambda v: collections.defaultdict(
          list, [('zeta', v[0]), ('alpha', v[1])])),
      'tmp': Kind('tmp', 2, False, lambda v: N.Tmp(*v)),
      'ntsub': Kind('ntsub', 2, False, lambda v: N.PairSub(*v)),
      'tvv': Kind('tvv', 1, False, lambda v: N.TagA.new(v[0]), True),
      'tv': Kind('tv', 1, True, lambda v: (N.TagA.new() if v[0] is UNSET
                                           else N.TagA.new(v[0])), True),
      # sharing that comes (partly) through a callable's own default object
      'eqc2': Kind('eqc2', 2, True, mk_buildable(fdl.Config, N.scaler2), True),
      'eqc3': Kind('eqc3', 2, True, mk_buildable(fdl.Config, N.scaler3), True),
      'eqmd2': Kind('eqmd2', 2, True, mk_buildable(fdl.Config, N.md2), True),
      'mlist': Kind('mlist', 0, False, lambda v: ['m']),  # == the default
      'mdefobj': Kind('mdefobj', 0, False, lambda v: N.MUT_DEFAULT),
      'cfgimm': Kind('cfgimm', 2, True, mk_buildable(fdl.Config, N.immut_fn),
                     True),
      'cfgfail': Kind('cfgfail', 2, True, mk_buildable(fdl.Config, N.failer),
                      True),
      'cfgmut': Kind('cfgmut', 2, True, mk_buildable(fdl.Config, N.mutator),
                     True),
      'tmpprim': Kind('tmpprim', 1, False, lambda v: N.TmpPrim(v[0]),
                      leaf_only=True),
  }
  return [table[n] for n in names]
