#!/bin/bash
# benign_run.sh <patch> <worktree> [ids...]: applies a behaviour-preserving patch in a scratch worktree and runs the quick checks
# against it; every check must stay silent.
P=$1; WT=$2; shift 2
IDS=${@:-C01 C02 C03 C04 C05 C06 C07 C08 C09 C10 C11 C12 C13 C14 C15 C16 C17 C18 C19 C20}
git -C $WT checkout -q -- . ; git -C $WT checkout -q --detach $(git -C /repo rev-parse HEAD)
git -C $WT apply $P || { echo "cannot apply $P"; exit 3; }
for c in $IDS; do
  ( cd /verif && VERIF_OUT=/tmp/verif_out_benign VERIF_REPO=$WT ./check $c --tier quick > /tmp/benign_$c.out 2>&1; echo "$P $c exit=$? $(grep -A1 '^VIOLATION' /tmp/benign_$c.out | grep 'key=' | head -3 | tr '\n' ' ')" )
done
git -C $WT checkout -q -- .
