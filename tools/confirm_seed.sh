#!/bin/bash
# usage: confirm_seed.sh <seed-dir (with patch.diff, demo.py)> <worktree> [check ids...]
# 1. in the scratch worktree (synced to /repo HEAD): demo passes clean, fails patched, test-suite passes patched
# 2. applies the patch to /repo, runs the listed checks (quick), reverts /repo.
D=$1; WT=$2; shift 2
set -u
git -C $WT checkout -q -- . ; git -C $WT checkout -q --detach $(git -C /repo rev-parse HEAD)
echo "== $D"
( cd $WT && PYTHONPATH=$WT /venv/bin/python $D/demo.py >/tmp/demo_clean.out 2>&1 ); echo "demo clean exit=$?"
if ! git -C $WT apply $D/patch.diff; then echo "PATCH DOES NOT APPLY"; exit 3; fi
( cd $WT && PYTHONPATH=$WT /venv/bin/python $D/demo.py >/tmp/demo_patched.out 2>&1 ); echo "demo patched exit=$?"
if [ "${SKIP_TESTS:-0}" != 1 ]; then
( cd $WT && PYTHONPATH=$WT /venv/bin/python -m pytest -q -p no:cacheprovider --timeout=900 fiddle --deselect fiddle/_src/codegen/auto_config/ir_to_cst_test.py::IrToCstTest::test_code_for_expr_jax_partition_spec -n 8 2>&1 | grep -E "passed|failed|error" | tail -1 )
fi
git -C $WT checkout -q -- .
if [ $# -gt 0 ]; then
  git -C /repo apply $D/patch.diff || { echo "cannot apply to /repo"; exit 3; }
  for c in "$@"; do
    ( cd /verif && VERIF_TIME_CAP=${CAP:-600} ./check $c --tier ${TIER:-quick} > /tmp/seedcheck_$c.out 2>&1; echo "check $c exit=$? $(grep -c '^VIOLATION' /tmp/seedcheck_$c.out) violation keys: $(grep -A1 '^VIOLATION' /tmp/seedcheck_$c.out | grep 'key=' | head -4 | tr '\n' ' ')" )
  done
  git -C /repo checkout -- .
fi
