#!/venv/bin/python
"""keep_seed.py <src dir> <name> <detected-by text...>: copies a confirmed seeded defect into /verif/seeded/<name>/."""
import json, os, shutil, sys
src, name = sys.argv[1], sys.argv[2]
detected = ' '.join(sys.argv[3:])
dst = os.path.join('/verif/seeded', name)
os.makedirs(dst, exist_ok=True)
for f in ('patch.diff', 'demo.py'):
  shutil.copy(os.path.join(src, f), os.path.join(dst, f))
meta = json.load(open(os.path.join(src, 'meta.json')))
meta['what_i_ran'] = ('tools/confirm_seed.sh: in a scratch worktree at /repo HEAD: demo.py exits 0 on the clean tree, '
                      'non-zero with patch.diff applied; full fiddle test-suite passes with the patch (only the '
                      'pre-existing ir_to_cst jax_partition_spec failure deselected); then patch applied to /repo, '
                      'checks run (quick tier), /repo restored')
meta['detected_by'] = detected
json.dump(meta, open(os.path.join(dst, 'meta.json'), 'w'), indent=1)
print('kept', dst)
