#!/bin/bash
# regress_seeds.sh [worktree] [part/of]: runs every kept seeded change against the quick check(s) recorded as catching it
# (scratch worktree + VERIF_REPO + VERIF_OUT; /repo and /verif/evidence are not touched). Prints one line per seed.
# e.g. `tools/regress_seeds.sh /tmp/wt/mine 0/2` and `tools/regress_seeds.sh /tmp/wt/mine2 1/2` in parallel.
WT=${1:-/tmp/wt/mine}
PART=${2:-0/1}
K=${PART%/*}; N=${PART#*/}
i=-1
for d in /verif/seeded/*/; do
  i=$((i+1))
  [ $((i % N)) -eq $K ] || continue
  name=$(basename $d)
  own=${name%%-*}
  if [ -n "$FROM" ] && [[ "$own" < "$FROM" ]]; then continue; fi
  ids=$(python3 - "$d" "$own" <<'PY'
import json,re,sys
m=json.load(open(sys.argv[1]+'/meta.json'))
det=m.get('detected_by','')
ids=[sys.argv[2]]
for x in re.findall(r'C\d\d', det):
    if x not in ids: ids.append(x)
if 'moot' in det or 'NOT JUDGED' in det: ids=[]
print(' '.join(ids))
PY
)
  if [ -z "$ids" ]; then echo "$name SKIP (moot / not judged)"; continue; fi
  caught=no
  for id in $ids; do
    out=$(/verif/tools/wt_seed.sh $d $WT $id 2>&1 | grep -v WARNING)
    if echo "$out" | grep -q "exit=1"; then caught="$id"; break; fi
    if echo "$out" | grep -q "cannot apply"; then caught="PATCH-DOES-NOT-APPLY"; break; fi
  done
  echo "$name caught_by=$caught"
done
