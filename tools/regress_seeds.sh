#!/bin/bash
# regress_seeds.sh [worktree]: runs every kept seeded change against the quick check(s) that are recorded as catching it
# (scratch worktree + VERIF_REPO; /repo is not touched). Prints one line per seed.
WT=${1:-/tmp/wt/mine}
for d in /verif/seeded/*/; do
  name=$(basename $d)
  own=${name%%-*}
  ids=$(python3 - "$d" "$own" <<'PY'
import json,re,sys
m=json.load(open(sys.argv[1]+'/meta.json'))
det=m.get('detected_by','')
ids=[sys.argv[2]]
for x in re.findall(r'C\d\d', det.split(';')[0] if det.startswith(('C0','C1','C2')) else det):
    if x not in ids: ids.append(x)
if 'moot' in det or 'NOT JUDGED' in det: ids=[]
print(' '.join(ids))
PY
)
  if [ -z "$ids" ]; then echo "$name SKIP (moot / not judged)"; continue; fi
  caught=no
  for id in $ids; do
    out=$(/verif/tools/wt_seed.sh $d $WT $id 2>&1 | grep -v WARNING)
    if echo "$out" | grep -q "exit=1"; then caught="$id"; break; fi
    if echo "$out" | grep -q "cannot apply"; then caught="PATCH-DOES-NOT-APPLY"; break; fi
  done
  echo "$name caught_by=$caught"
done
