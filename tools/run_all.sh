#!/bin/bash
# run_all.sh [tier] : every check once, prints id, exit, wall
T=${1:-quick}
for i in 01 02 03 04 05 06 07 08 09 10 11 12 13 14 15 16 17 18 19 20; do
  s=$(date +%s)
  out=$(cd /verif && ./check C$i --tier $T 2>&1 | grep -E "^C$i tier|^VIOLATION|HARNESS" | head -3 | cut -c1-160)
  e=$(( $(date +%s) - s ))
  echo "C$i ${e}s :: $out"
done
