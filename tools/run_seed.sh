#!/bin/bash
# run_seed.sh <seed dir> <check ids...>: apply patch to /repo, run checks, restore /repo
D=$1; shift
git -C /repo apply $D/patch.diff || { echo "cannot apply $D to /repo"; exit 3; }
for c in "$@"; do
  ( cd /verif && VERIF_TIME_CAP=${CAP:-600} ./check $c --tier ${TIER:-quick} > /tmp/seedcheck_$c.out 2>&1; echo "$D check $c exit=$? keys: $(grep -A1 '^VIOLATION' /tmp/seedcheck_$c.out | grep 'key=' | head -4 | sed 's/occurrences=//' | tr '\n' ' ')" )
done
git -C /repo checkout -- .
