#!/bin/bash
# test_seeds.sh <ids...>: for each /tmp/seeded/<ID>/m*/patch.diff run the fiddle suite in the worktree /tmp/wt/<id> with the patch applied
for ID in "$@"; do
  WT=/tmp/wt/$(echo $ID | tr 'C' 'c')
  git -C $WT checkout -q -- . ; git -C $WT checkout -q --detach $(git -C /repo rev-parse HEAD)
  for d in ${SEED_BASE:-/tmp/seeded}/$ID/m*/; do
    [ -f $d/patch.diff ] || continue
    if git -C $WT apply $d/patch.diff 2>/dev/null; then
      r=$(cd $WT && PYTHONPATH=$WT /venv/bin/python -m pytest -q -p no:cacheprovider --timeout=900 fiddle --deselect fiddle/_src/codegen/auto_config/ir_to_cst_test.py::IrToCstTest::test_code_for_expr_jax_partition_spec -n ${NPROC:-6} 2>&1 | grep -E "passed|failed|error" | tail -1)
      d1=$(cd $WT && PYTHONPATH=$WT /venv/bin/python $d/demo.py >/dev/null 2>&1; echo $?)
      git -C $WT checkout -q -- .
      d0=$(cd $WT && PYTHONPATH=$WT /venv/bin/python $d/demo.py >/dev/null 2>&1; echo $?)
      echo "$d demo_clean=$d0 demo_patched=$d1 tests: $r"
    else
      echo "$d PATCH-DOES-NOT-APPLY"
    fi
  done
done
