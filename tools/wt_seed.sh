#!/bin/bash
# wt_seed.sh <seed dir or patch file> <worktree> <check ids...>: apply the patch in a scratch worktree synced to /repo HEAD
# and run the checks against that worktree (VERIF_REPO), leaving /repo untouched.
D=$1; WT=$2; shift 2
P=$D; [ -d "$D" ] && P=$D/patch.diff
git -C $WT checkout -q -- . ; git -C $WT checkout -q --detach $(git -C /repo rev-parse HEAD)
git -C $WT apply $P || { echo "cannot apply $P"; exit 3; }
for c in "$@"; do
  ( cd /verif && VERIF_OUT=/tmp/verif_out VERIF_REPO=$WT VERIF_TIME_CAP=${CAP:-900} ./check $c --tier ${TIER:-quick} > /tmp/wtseed_$(basename $WT)_$c.out 2>&1; echo "$D check $c exit=$? keys: $(grep -A1 '^VIOLATION' /tmp/wtseed_$(basename $WT)_$c.out | grep 'key=' | head -4 | sed 's/occurrences=//' | tr '\n' ' ')" )
done
git -C $WT checkout -q -- .
