"""Importable fixture package: the closed driver for the fiddle checks.

Everything here is importable by module + qualname so that serialization,
pickling and code generation can find it again.
"""
from __future__ import annotations

import itertools

LOG = []          # invocation log: (serial, fn_key, rec)
_serial = itertools.count(1)
FAIL = {}         # fn_key / id(token) -> exception factory (fault injection)


def reset():
  global _serial
  LOG.clear()
  FAIL.clear()
  _serial = itertools.count(1)


class Rec:
  """What a recording callable returns: its identity and its bound locals."""

  def __init__(self, fn_key, bound):
    self.fn_key = fn_key
    self.bound = bound
    self.serial = next(_serial)
    LOG.append((self.serial, fn_key, self))

  def __repr__(self):
    return f'Rec({self.fn_key}, {self.bound!r})'


def rec(fn_key, bound):
  bound = dict(bound)
  bound.pop('self', None)
  bound.pop('cls', None)
  bound.pop('__class__', None)
  return Rec(fn_key, bound)


class RecObj(Rec):
  """Base for recording classes: the instance itself is the record."""

  def _record(self, fn_key, bound):
    bound = dict(bound)
    bound.pop('self', None)
    bound.pop('__class__', None)
    Rec.__init__(self, fn_key, bound)
