"""A user module whose path ends like one of Fiddle's own internal files.

Edits made here are the user's: history must attribute them to this file.
"""
import fiddle as fdl


def construct(fn):
  return fdl.Config(fn, x='ctor')


def set_attribute(cfg):
  cfg.x = 'set-here'


def delete_attribute(cfg):
  del cfg.x


def assign_many(cfg):
  fdl.assign(cfg, x='assigned', y='assigned-y')


def set_item(cfg):
  cfg[0] = 'item'


def copy_with_value(cfg):
  return fdl.copy_with(cfg, x='copied-with')


EDITS = {
    'set_attribute': set_attribute, 'delete_attribute': delete_attribute,
    'assign_many': assign_many, 'set_item': set_item,
    'copy_with_value': copy_with_value,
}
