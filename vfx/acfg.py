"""auto_config fixtures (a real file: auto_config needs inspect.getsource)."""
from __future__ import annotations

import functools

from fiddle.experimental import auto_config
from vfx import nodes


@auto_config.auto_config(experimental_always_inline=False)
def make_pair(a, b='B'):
  shared = nodes.Base(x=a)
  return nodes.Other(x=shared, y=[shared, nodes.node_b(x=b)])


@auto_config.auto_config(experimental_always_inline=False)
def make_partial(a):
  return nodes.node(x=functools.partial(nodes.node_b, y=a), y=(a, 1))


@auto_config.auto_config(experimental_always_inline=False)
def make_nested(a):
  return nodes.Mid(x=make_pair(a), y=make_pair(a, b='inner'))


@auto_config.auto_config(experimental_always_inline=False)
def make_noargs():
  return nodes.Base(x=[nodes.node_b()], y=make_pair('na'))


@auto_config.auto_config(experimental_always_inline=False)
def make_top_partial(a):
  # the as_buildable() form of this function is a fdl.Partial
  return functools.partial(nodes.node_b, y=a)


@auto_config.auto_config
def outer2():
  return nodes.node(x=make_noargs(), y=[make_noargs(), make_pair('z'),
                                        make_noargs(), make_top_partial('tp')])


@auto_config.auto_config
def outer(a, b='ob'):
  p = make_pair(a)
  return nodes.node(x=p, y=[p, make_pair(b, 'q'), make_partial(a),
                            make_nested(b)])


# ---- helpers called from generated C11 programs
@auto_config.auto_config
def helper_inline(v, w='hw'):
  return nodes.node_b(x=v, y=w)


@auto_config.auto_config(experimental_always_inline=False)
def helper_noinline(v, w='hw'):
  return nodes.Other(x=v, y=[w])


@auto_config.auto_unconfig
def helper_unconfig(v):
  import fiddle as fdl  # pylint: disable=g-import-not-at-top
  return fdl.Config(nodes.Base, x=v)


@auto_config.auto_unconfig
def helper_unconfig_raises(v):
  raise ValueError('the configuration-constructing body failed')
