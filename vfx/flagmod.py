"""Module of base configs and fiddlers for the FiddleFlag checks (C18)."""
import fiddle as fdl
from vfx import nodes


def base():
  return fdl.Config(nodes.node, x=0, y=fdl.Config(nodes.node_b, x=0))


def base2(n=1, tag='t'):
  return fdl.Config(nodes.node, x=n, y=fdl.Config(nodes.node_b, x=tag, y=[n]))


def f1(cfg):
  """Mutating fiddler: order- and repetition-sensitive."""
  cfg.x = (cfg.x * 2) + 1


def f2(cfg, k=3):
  """Returning fiddler."""
  new = fdl.Config(nodes.node, x=[cfg.x, k], y=cfg.y)
  return new


def f3(cfg, items=()):
  cfg.y.y = list(items)


def base3(items=()):
  """Keeps the very object it was given (a parsed literal) in the config."""
  return fdl.Config(nodes.node, x=0, y=fdl.Config(nodes.node_b, x=0, y=items))


def tagged_base():
  """A base configuration with one tag on two parameters."""
  cfg = fdl.Config(nodes.node, x=1, y=2)
  fdl.add_tag(cfg, 'x', nodes.TagC)
  fdl.add_tag(cfg, 'y', nodes.TagC)
  return cfg


def set_x_to_fiddled(cfg):
  cfg.x = 'fiddled'
