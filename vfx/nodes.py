"""Node callables, class hierarchy, tags, named tuples and custom node types."""
from __future__ import annotations

import collections
import functools
import dataclasses
import enum
import typing

import fiddle as fdl
from fiddle._src import daglish
import vfx


def node(x='dx', y='dy'):
  return vfx.rec('node', locals())


def node_b(x='dx', y='dy'):
  return vfx.rec('node_b', locals())


def node_nd(x, y=None):
  """No default for x."""
  return vfx.rec('node_nd', locals())


def node_kw(x='dx', **kw):
  return vfx.rec('node_kw', locals())


def node_pos(p0='dp0', /, a='da', *va, k='dk', **kw):
  return vfx.rec('node_pos', locals())


def node_po3(a, b='db', c='dc', /, *rest, k='dk'):
  """Positional-only parameters with defaults below *args."""
  return vfx.rec('node_po3', locals())


def immut_fn(x='dx', y='dy'):
  """Registered as a function with an immutable return value."""
  return vfx.rec('immut_fn', locals())


def _register_immutable():
  from fiddle._src import daglish_extensions  # pylint: disable=g-import-not-at-top
  daglish_extensions.register_function_with_immutable_return_value(immut_fn)


_register_immutable()


def node_seq(*layers, k='dk'):
  """*args is the first parameter."""
  return vfx.rec('node_seq', locals())


class NewInit(vfx.RecObj):
  """Defines both __new__ (unannotated) and __init__ (annotated with a
  tag) in one class body."""

  def __new__(cls, x='dx', y='dy'):
    return super().__new__(cls)

  def __init__(self, x: typing.Annotated[object, TagA] = 'dx', y='dy'):
    self._record('NewInit', locals())


class _Missing:
  """An identity-sensitive default (checked with `is`)."""

  def __repr__(self):
    return '<MISSING>'

  def __canon__(self):
    return ('MISSING',)


MISSING = _Missing()


def sentinel_fn(x=MISSING, y='dy'):
  r = vfx.rec('sentinel_fn', dict(y=y))
  r.bound['x_is_the_sentinel'] = x is MISSING
  r.bound['x'] = x
  return r


NESTED = ((0, 0), (0, 0))
NESTED_EQUAL = tuple([tuple([0, 0]), tuple([0, 0])])   # equal, distinct object


def nested_default_fn(x=NESTED, y=NESTED):
  return vfx.rec('nested_default_fn', locals())


@dataclasses.dataclass
class DCBase:
  a: list = dataclasses.field(default_factory=list)
  b: int = 0


@dataclasses.dataclass
class DCSub(DCBase):
  a: list = None                 # no longer a factory field
  c: list = dataclasses.field(default_factory=list)   # a new factory field


def node_va(a='da', *args):
  """A named parameter below *args."""
  return vfx.rec('node_va', locals())


def node_pos2(p0='dp0', /, a='da', *va):
  """Positional-only + *args, no **kwargs."""
  return vfx.rec('node_pos2', locals())


def mutator(x=None, y=None):
  """Modifies the containers it receives in place (like a __post_init__ that
  sorts / extends its fields)."""
  for v in (x, y):
    if isinstance(v, list):
      v.append('MUTATED-BY-CALLABLE')
    elif isinstance(v, dict):
      v['MUTATED-BY-CALLABLE'] = 1
  return vfx.rec('mutator', locals())


def node_mut(x=None, y=(1, 2)):
  return vfx.rec('node_mut', locals())


class Base(vfx.RecObj):

  def __init__(self, x='dx', y='dy'):
    self._record(type(self).__name__, locals())


class Mid(Base):
  pass


class Leaf(Mid):
  pass


class Other(vfx.RecObj):

  def __init__(self, x='dx', y='dy'):
    self._record('Other', locals())


Pair = collections.namedtuple('Pair', ['first', 'second'])


class PairSub(Pair):
  """A class derived from a namedtuple class (adds a method)."""
  __slots__ = ()

  def swapped(self):
    return PairSub(self.second, self.first)


class Color(enum.Enum):
  RED = 1
  BLUE = 2


class Num(enum.IntEnum):
  ONE = 1
  TWO = 2


class TagA(fdl.Tag):
  """Tag A."""


class TagB(TagA):
  """Tag B (subclass of A)."""


class TagC(fdl.Tag):
  """Tag C."""


def node_tagged(x: typing.Annotated[object, TagA] = 'dx', y='dy'):
  return vfx.rec('node_tagged', locals())


class Tmp:
  """User node type whose flatten creates fresh temporaries."""

  def __init__(self, a=None, b=None):
    self.a = a
    self.b = b

  @property
  def wa(self):
    return [self.a]

  @property
  def wb(self):
    return [self.b]

  def __canon__(self):
    return (self.a, self.b)

  def __eq__(self, other):
    return type(other) is Tmp and (self.a, self.b) == (other.a, other.b)

  __hash__ = None

  def __repr__(self):
    return f'Tmp({self.a!r}, {self.b!r})'


def _tmp_flatten(t):
  # fresh wrapper objects on every call
  return (t.wa, t.wb), None


def _tmp_unflatten(values, _):
  a, b = values
  return Tmp(a[0], b[0])


daglish.register_node_traverser(
    Tmp,
    flatten_fn=_tmp_flatten,
    unflatten_fn=_tmp_unflatten,
    path_elements_fn=lambda t: (daglish.Attr('wa'), daglish.Attr('wb')),
)


_tmpprim_serial = __import__('itertools').count(1000)


class TmpPrim:
  """User node type whose flatten creates fresh *primitive* temporaries."""

  def __init__(self, a=None):
    self.a = a
    self.k = next(_tmpprim_serial)

  @property
  def ibang(self):
    return self.k * 3 + 1           # a new int object on every access

  @property
  def sbang(self):
    return '%8r!%06d' % (self.a, self.k)   # a new str object on every access

  def __canon__(self):
    return (self.a,)

  def __repr__(self):
    return f'TmpPrim({self.a!r})'


def _tmpprim_unflatten(values, t):
  values = list(values)
  if values == [t.ibang, t.sbang]:
    return TmpPrim(t.a)
  return TmpPrim(('CORRUPT', t.a, values))


daglish.register_node_traverser(
    TmpPrim,
    flatten_fn=lambda t: ((t.ibang, t.sbang), t),
    unflatten_fn=_tmpprim_unflatten,
    path_elements_fn=lambda t: (daglish.Attr('ibang'), daglish.Attr('sbang')),
)


@dataclasses.dataclass
class DC:
  x: object = 'dx'
  y: object = dataclasses.field(default_factory=list)


# ------------------------------------------------------------ fault injection
def failer(x='dx', y='dy'):
  """Records its invocation, then raises whatever vfx.FAIL['exc'] makes."""
  r = vfx.rec('failer', locals())
  if vfx.FAIL.get('mutate'):
    # a callable that touches the containers it was given before failing
    for v in (x, y):
      if isinstance(v, list):
        v.append('MUTATED-BY-FAILING-CALLABLE')
      elif isinstance(v, dict):
        v['MUTATED-BY-FAILING-CALLABLE'] = 1
  if 'exc' in vfx.FAIL:
    raise vfx.FAIL['exc']()
  return r


class FailerInstance:
  """A failing callable without __qualname__ / __name__."""

  def __call__(self, x='dx', y='dy'):
    vfx.rec('failer_instance', locals())
    raise vfx.FAIL['exc']()


failer_instance = FailerInstance()


def nested_builder(x='dx', y='dy'):
  """Calls fdl.build from inside a callable that is itself being built."""
  r = vfx.rec('nested_builder', locals())
  r.bound['inner'] = fdl.build(fdl.Config(node, x='inner'))
  return r


def unconfig_swallower(x='dx'):
  """Inside a build: calls an auto_unconfig function whose body raises,
  swallows that, then tries a nested fdl.build (which must be rejected)."""
  from vfx import acfg  # pylint: disable=g-import-not-at-top
  r = vfx.rec('unconfig_swallower', locals())
  try:
    acfg.helper_unconfig_raises(x)
    r.bound['unconfig'] = 'returned'
  except ValueError:
    r.bound['unconfig'] = 'raised'
  try:
    fdl.build(fdl.Config(node, x='inner'))
    r.bound['nested'] = 'accepted'
  except Exception as e:  # pylint: disable=broad-except
    r.bound['nested'] = 'rejected'
  return r


class BadRepr:
  """An argument whose repr raises."""

  def __init__(self, exc_type):
    self.exc_type = exc_type

  def __canon__(self):
    return self.exc_type.__name__

  def __repr__(self):
    raise self.exc_type('repr failed')


def eqnode(x='D', y='D'):
  return vfx.rec('eqnode', locals())


def _make_scaler(k):
  def scaler(x='D', y='D'):
    return vfx.rec(f'scaler{k}', dict(x=x, y=y, k=k))
  scaler.__canon_tag__ = k
  return scaler


# two functions made by one factory: same code object, different behaviour
scaler2 = _make_scaler(2)
scaler3 = _make_scaler(3)


def eqnode_b(x='D', y='D'):
  return vfx.rec('eqnode_b', locals())


def eqpos(p0='D', /, a='D', *va, k='D', **kw):
  return vfx.rec('eqpos', locals())


def eq3(x='D', y='D', z='D'):
  return vfx.rec('eq3', locals())


MUT_DEFAULT = ['m']


def md(x=MUT_DEFAULT, y='dy'):
  """A callable whose default is a mutable, shared object."""
  return vfx.rec('md', locals())


def md2(x=MUT_DEFAULT, y=MUT_DEFAULT):
  return vfx.rec('md2', locals())


@dataclasses.dataclass
class DC2:
  a: object = 'da'
  b: object = dataclasses.field(default_factory=lambda: ['fb'])
  c: object = None


def falsy(x=0, y=''):
  return vfx.rec('falsy', locals())


def falsy2(x=None, y=False):
  return vfx.rec('falsy2', locals())


class TagD(TagB):
  """Tag D (grandchild of A)."""


def only_x(x='ox'):
  return vfx.rec('only_x', locals())


class DictObj:
  """A dict-based object registered for serialization."""

  def __init__(self, a=None, b=None):
    self.a = a
    self.b = b

  def __canon__(self):
    return ('DictObj', self.a, self.b)

  def __eq__(self, other):
    return type(other) is DictObj and self.__dict__ == other.__dict__

  __hash__ = None


class Const:
  """A value registered as a serialization constant."""

  def __repr__(self):
    return 'vfx.nodes.CONST'


CONST = Const()


class InternObj:
  """A registered dict-based class with an interning __new__ that can be
  called without arguments."""
  _instances = {}

  def __new__(cls, key='default', payload=None):
    inst = cls._instances.get(key)
    if inst is None:
      inst = super().__new__(cls)
      cls._instances[key] = inst
    return inst

  def __init__(self, key='default', payload=None):
    self.key = key
    self.payload = payload

  def __canon__(self):
    return (self.key, self.payload)

  def __eq__(self, other):
    return type(other) is InternObj and (self.key, self.payload) == (
        other.key, other.payload)

  __hash__ = None

  def __repr__(self):
    return f'InternObj({self.key!r}, {self.payload!r})'


def _wrap(fn):
  @functools.wraps(fn)
  def wrapper(*args, **kwargs):
    return fn(*args, **kwargs)
  return wrapper


class Sentinel(str):
  """A str subclass used as a named constant."""


# constants registered *by value* that compare (and hash) equal to primitives
HALF = __import__('fractions').Fraction(1, 2)
ONE = __import__('decimal').Decimal(1)
AUTO = Sentinel('auto')


def _register_serialization():
  from fiddle.experimental import serialization  # pylint: disable=g-import-not-at-top
  serialization.register_dict_based_object(DictObj)
  serialization.register_dict_based_object(InternObj)
  serialization.register_constant('vfx.nodes', 'CONST',
                                  compare_by_identity=True)
  serialization.register_constant('vfx.nodes', 'MISSING',
                                  compare_by_identity=True)
  for name in ('HALF', 'ONE', 'AUTO'):
    serialization.register_constant('vfx.nodes', name,
                                    compare_by_identity=False)




def annotated(x='dx', y='dy') -> Base:
  """Return annotation: a class."""
  return Base(x, y)


def annotated_builtin(x='dx', y='dy') -> int:
  return 1


def annotated_none(x='dx', y='dy') -> None:
  return None


def nodes(x='dx', y='dy'):
  """A callable whose name equals its module's import name."""
  return vfx.rec('nodes', locals())


def config_fixture(x='dx', y='dy'):
  """A callable whose name equals the generated fixture's name."""
  return vfx.rec('config_fixture', locals())


class Outer:
  """Nested enum / class (qualname with a dot)."""

  class Mode(enum.Enum):
    TRAIN = 1
    EVAL = 2

  class Inner(vfx.RecObj):

    def __init__(self, x='dx', y='dy'):
      self._record('Outer.Inner', locals())


class Mode(enum.Enum):
  """Same name as Outer.Mode at module level."""
  TRAIN = 10
  EVAL = 20


FLAKY = {'fail': False}


def flaky(x='fx'):
  """Raises while the harness has switched failures on."""
  if FLAKY['fail']:
    raise RuntimeError('flaky factory failed')
  return vfx.rec('flaky', locals())


class Scaler:
  """A method reachable as Scaler.scale (plain function) and as
  SCALER.scale (bound method)."""

  def scale(self, v='dv', bias='db'):
    return vfx.rec('Scaler.scale', locals())

  def __canon__(self):
    return ('Scaler-instance',)


SCALER = Scaler()


class MakerBase:
  """Classmethod inherited by a subclass (bound-method pyrefs)."""

  @classmethod
  def make(cls, x='dx', y='dy'):
    return vfx.rec(cls.__name__ + '.make', locals())


class MakerSub(MakerBase):
  pass


# same module and qualified name as `node`, a different object
node_wrapped = _wrap(node)


_register_serialization()
