"""Module whose last name component collides with vfx.pa.common."""
import fiddle as fdl
import vfx


def make(x='dx', y='dy'):
  return vfx.rec('pb.common.make', locals())


class Thing(vfx.RecObj):

  def __init__(self, x='dx', y='dy'):
    self._record('pb.Thing', locals())


class DType(fdl.Tag):
  """A tag class that exists under the same name in vfx.pa and vfx.pb."""
