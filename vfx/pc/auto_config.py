"""A user module whose name collides with fiddle.experimental.auto_config."""
import vfx


def build_thing(x='dx', y='dy'):
  return vfx.rec('pc.auto_config.build_thing', locals())
