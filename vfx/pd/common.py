"""A module that is registered with a dotted, un-aliased import statement, and
that holds a subclass (of a class from another module) inheriting a
classmethod."""
import vfx
from vfx import nodes


class Widget(vfx.RecObj):

  def __init__(self, x='dx', y='dy'):
    self._record('pd.Widget', locals())


class MakerFar(nodes.MakerBase):
  """Inherits the classmethod `make` from a class defined in vfx.nodes."""


def _register():
  from fiddle._src.codegen import import_manager  # pylint: disable=g-import-not-at-top
  import_manager.register_import_alias('vfx.pd.common', 'import vfx.pd.common')


_register()
