"""Recording callables for every signature shape of the C01/C03 alphabet.

A signature is (po, pk, nd, var, ko, kw):
  po  number of positional-only parameters p0, p1           (0..2)
  pk  number of positional-or-keyword parameters a, b       (0..2)
  nd  number of trailing positional parameters with default (0..po+pk)
  var has *va
  ko  tuple of bools: keyword-only k0, k1, True = has default
  kw  has **kw
The default of parameter X is the string 'd_X'.
"""
from __future__ import annotations

import dataclasses
import functools
import itertools

import vfx

PO_NAMES = ('p0', 'p1')
PK_NAMES = ('a', 'b')
KO_NAMES = ('k0', 'k1')


def sig_name(sig):
  po, pk, nd, var, ko, kw = sig
  return 'f_%d%d%d%s_%s_%s' % (po, pk, nd, 'v' if var else 'n', ''.join(
      'd' if d else 'r' for d in ko) or 'x', 'k' if kw else 'n')


def all_sigs(max_po=2, max_pk=2, max_ko=2):
  out = []
  for po in range(max_po + 1):
    for pk in range(max_pk + 1):
      for nd in range(po + pk + 1):
        for var in (False, True):
          for nko in range(max_ko + 1):
            for ko in itertools.product((False, True), repeat=nko):
              for kw in (False, True):
                out.append((po, pk, nd, var, ko, kw))
  return out


def params(sig):
  """List of (name, kind, has_default) in signature order."""
  po, pk, nd, var, ko, kw = sig
  pos = [(n, 'po') for n in PO_NAMES[:po]] + [(n, 'pk') for n in PK_NAMES[:pk]]
  out = []
  for i, (n, k) in enumerate(pos):
    out.append((n, k, i >= len(pos) - nd))
  if var:
    out.append(('va', 'var', False))
  for n, d in zip(KO_NAMES, ko):
    out.append((n, 'ko', d))
  if kw:
    out.append(('kw', 'kw', False))
  return out


def param_src(sig, first=None):
  po, pk, nd, var, ko, kw = sig
  parts = [first] if first else []
  ps = params(sig)
  for i, (n, k, d) in enumerate(ps):
    if k == 'ko' and not var and not any(
        p[1] == 'ko' for p in ps[:i]):
      parts.append('*')
    if k == 'var':
      parts.append('*va')
    elif k == 'kw':
      parts.append('**kw')
    else:
      parts.append(f"{n}='d_{n}'" if d else n)
    if k == 'po' and (i + 1 == len(ps) or ps[i + 1][1] != 'po'):
      parts.append('/')
  return ', '.join(parts)


_SRC = []
for _sig in all_sigs():
  _n = sig_name(_sig)
  _SRC.append(f'def {_n}({param_src(_sig)}):\n'
              f"  return vfx.rec('{_n}', locals())\n")
  # class flavour
  _SRC.append(f'class C{_n[1:]}(vfx.RecObj):\n'
              f'  def __init__({param_src(_sig, "self")}):\n'
              f"    self._record('C{_n[1:]}', locals())\n")
  # classmethod flavour
  _SRC.append(f'class M{_n[1:]}:\n'
              f'  @classmethod\n'
              f'  def make({param_src(_sig, "cls")}):\n'
              f"    return vfx.rec('M{_n[1:]}.make', locals())\n")
  # callable-instance flavour
  _SRC.append(f'class I{_n[1:]}:\n'
              f'  def __call__({param_src(_sig, "self")}):\n'
              f"    return vfx.rec('I{_n[1:]}', locals())\n"
              f'i{_n[1:]} = I{_n[1:]}()\n')
exec(compile('\n'.join(_SRC), __file__ + '<generated>', 'exec'))  # pylint: disable=exec-used
del _SRC


def fn(sig):
  return globals()[sig_name(sig)]


def cls(sig):
  return globals()['C' + sig_name(sig)[1:]]


def classmeth(sig):
  return globals()['M' + sig_name(sig)[1:]].make


def inst(sig):
  return globals()['i' + sig_name(sig)[1:]]


def partial_of(sig):
  """functools.partial object presenting `sig`'s parameters unbound."""
  return functools.partial(fn(sig))


# ---- dataclass flavour: pk fields a, b; keyword-only fields k0, k1.
def _mk_list():
  return ['factory']


def dataclass_sigs():
  out = []
  for pk in range(3):
    for nd in range(pk + 1):
      for nko in range(3):
        for ko in itertools.product((False, True), repeat=nko):
          out.append((0, pk, nd, False, ko, False))
  return out


def _make_dc(sig, use_factory):
  po, pk, nd, var, ko, kw = sig
  fields = []
  for n, k, d in params(sig):
    if k == 'pk':
      if d:
        if use_factory:
          fields.append((n, object, dataclasses.field(default_factory=_mk_list)))
        else:
          fields.append((n, object, dataclasses.field(default=f'd_{n}')))
      else:
        fields.append((n, object))
    else:
      if d:
        fields.append((n, object, dataclasses.field(
            default=f'd_{n}', kw_only=True)))
      else:
        fields.append((n, object, dataclasses.field(kw_only=True)))
  name = ('DF' if use_factory else 'D') + sig_name(sig)[1:]

  def __post_init__(self):
    vfx.Rec.__init__(
        self, name,
        {f.name: getattr(self, f.name) for f in dataclasses.fields(self)})

  c = dataclasses.make_dataclass(
      name, fields, bases=(vfx.Rec,),
      namespace={'__post_init__': __post_init__, '__repr__': vfx.Rec.__repr__},
      eq=False, repr=False)
  c.__module__ = __name__
  c.__qualname__ = name
  return c


for _sig in dataclass_sigs():
  for _uf in (False, True):
    if _uf and _sig[2] == 0:
      continue
    _c = _make_dc(_sig, _uf)
    globals()[_c.__name__] = _c


def dc(sig, use_factory=False):
  return globals()[('DF' if use_factory else 'D') + sig_name(sig)[1:]]
